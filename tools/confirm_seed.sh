#!/bin/bash
# tools/confirm_seed.sh <seed-name>
# Confirms a seeded change myself in scratch copies of /repo (outside /repo and /verif, removed afterwards):
# the existing suite passes with it, its demo fails with it and passes without it. Writes seeded/<name>/confirm.log
name="$1"; dir=/verif/seeded/$name
log="$dir/confirm.log"; : > "$log"
a=$(mktemp -d /dev/shm/bvt-seedA-XXXXXX); b=$(mktemp -d /dev/shm/bvt-seedB-XXXXXX)
trap 'rm -rf "$a" "$b"' EXIT
for d in "$a" "$b"; do ( cd /repo && git ls-files -z | xargs -0 -I{} cp --parents {} "$d/" ); done
( cd "$a" && git init -q . && git apply --whitespace=nowarn "$dir/patch.diff" ) || { echo "PATCH DOES NOT APPLY" >> "$log"; cat "$log"; exit 1; }
cp "$dir/demo.py" "$a/demo.py"; cp "$dir/demo.py" "$b/demo.py"
echo "== import: $(cd $a && PYTHONPATH=$a /venv/bin/python -c 'import bubus; print(bubus.__file__)')" >> "$log"
for try in 1 2 3; do
  ( cd "$a" && PYTHONPATH="$a" timeout 1500 /venv/bin/python -m pytest -q -p no:cacheprovider --timeout=120 > /tmp/confirm-$name-suite.log 2>&1 )
  res=$(grep -E "[0-9]+ passed|[0-9]+ failed" /tmp/confirm-$name-suite.log | tail -1)
  echo "suite with change (try $try): $res" >> "$log"
  echo "$res" | grep -q "138 passed" && break
  grep -E "^FAILED|::.* FAILED" /tmp/confirm-$name-suite.log | head -3 >> "$log"
done
for i in 1 2 3; do ( cd "$a" && PYTHONPATH="$a" timeout 180 /venv/bin/python demo.py > /dev/null 2>&1 ); echo "demo with change run $i exit=$?" >> "$log"; done
for i in 1 2 3; do ( cd "$b" && PYTHONPATH="$b" timeout 180 /venv/bin/python demo.py > /dev/null 2>&1 ); echo "demo without change run $i exit=$?" >> "$log"; done
cat "$log"
