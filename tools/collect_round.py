#!/usr/bin/env python3
"""tools/collect_round.py <round> [ID...] : collect the seeded changes of one sub-agent round from the scratch worktrees
/tmp/seed<round>-<ID> into /verif/seeded/agent<round>-<ID>/ (patch.diff, demo.py, NOTES.md, meta.json). Nothing is committed to /repo;
the worktrees are removed separately (`git -C /repo worktree remove --force /tmp/seed<round>-<ID>`)."""
import json
import os
import shutil
import subprocess
import sys

rnd = sys.argv[1]
ids = sys.argv[2:] or [f'C{n:02d}' for n in range(1, 21)]
root = os.path.dirname(os.path.dirname(os.path.abspath(__file__)))
for pid in ids:
    wt = f'/tmp/seed{rnd}-{pid}'
    if not os.path.isdir(wt):
        print(pid, 'no worktree')
        continue
    diff = subprocess.run(['git', '-C', wt, 'diff', '--', 'bubus'], capture_output=True, text=True).stdout
    if not diff.strip() or not os.path.exists(f'{wt}/demo.py'):
        print(pid, 'INCOMPLETE (no diff or no demo.py)')
        continue
    dst = f'{root}/seeded/agent{rnd}-{pid}'
    os.makedirs(dst, exist_ok=True)
    open(f'{dst}/patch.diff', 'w').write(diff)
    shutil.copy(f'{wt}/demo.py', f'{dst}/demo.py')
    if os.path.exists(f'{wt}/NOTES.md'):
        shutil.copy(f'{wt}/NOTES.md', f'{dst}/NOTES.md')
    files = sorted({l[6:] for l in diff.splitlines() if l.startswith('+++ b/')})
    meta_path = f'{dst}/meta.json'
    meta = json.load(open(meta_path)) if os.path.exists(meta_path) else {}
    meta.update({
        'name': f'agent{rnd}-{pid}',
        'property': pid,
        'checks': meta.get('checks') or [pid],
        'author': f'independent sub-agent (round {rnd}) given only the property text, the one-line ideas of the earlier rounds to avoid, and a scratch worktree of /repo',
        'files_changed': files,
    })
    meta.setdefault('needs_to_manifest', '')
    meta.setdefault('confirmed', None)
    json.dump(meta, open(meta_path, 'w'), indent=1)
    print(pid, 'collected', files, f'{len(diff.splitlines())} diff lines')
