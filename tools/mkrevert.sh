#!/bin/bash
# tools/mkrevert.sh <commit> <out.diff> : reverse patch of a fix commit, relative to /repo HEAD (so it applies to the current tree)
set -e
c="$1"; out="$(readlink -f "$2")"
wt="$(mktemp -d /dev/shm/bvt-wt-XXXXXX)"; rmdir "$wt"
git -C /repo worktree add -q --detach "$wt" HEAD
trap 'git -C /repo worktree remove --force "$wt"' EXIT
cd "$wt"
if git revert --no-commit "$c" >/dev/null 2>&1; then
  git diff HEAD > "$out"; echo "ok $out ($(grep -c '^[-+]' "$out") lines)"
else
  echo "CONFLICT reverting $c"; git diff --name-only --diff-filter=U; exit 1
fi
