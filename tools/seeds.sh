#!/bin/bash
# tools/seeds.sh [seed...] : run every check's quick tier at several VERIF_SEED values on the unchanged tree; all must be quiet
cd "$(dirname "$0")/.."
seeds="${@:-2 3 5 8}"
fail=0
for s in $seeds; do
  for p in $(seq -f "C%02g" 1 20); do
    out=$(VERIF_SEED=$s ./check $p --no-evidence 2>&1); rc=$?
    echo "seed=$s $p exit=$rc $(echo "$out" | grep -E '^(OK|FAIL|HARNESS)' | head -1 | cut -c1-120)"
    [ $rc -ne 0 ] && { fail=1; echo "$out" | grep -E "clause=|VIOLATION|HARNESS" | head -5; }
  done
done
exit $fail
