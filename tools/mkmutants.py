#!/usr/bin/env python3
"""Generate hand-written sensitivity mutants as unified diffs against /repo HEAD working tree.
Each entry: (name, [properties expected to catch it], file, [(old, new), ...])."""
import difflib, os, sys
REPO = '/repo'
OUT = os.path.join(os.path.dirname(os.path.dirname(os.path.abspath(__file__))), 'mutants')
M = []
def m(name, props, file, *subs):
    M.append((name, props, file, subs))

S = 'bubus/service.py'; MO = 'bubus/models.py'; H = 'bubus/helpers.py'
# --- semantic reverses of fixes whose git revert conflicts
m('rev_F2_guard_raises_in_runloop', ['C03'], S,
  ("""            try:
                would_create_loop = self._would_create_loop(event, handler)
            except RuntimeError as loop_error:
                # recursion guard tripped: record it as this handler's error instead of aborting the whole event
                event.event_result_update(handler=handler, eventbus=self, error=loop_error)
                logger.error(f'❌ {self} {loop_error}')
                continue
            if would_create_loop:""", """            would_create_loop = self._would_create_loop(event, handler)
            if would_create_loop:"""))
m('rev_F6_runloop_inherits_context', ['C06'], S,
  ("self._runloop_task = loop.create_task(self._run_loop(), name=f'{self}._run_loop', context=runloop_context)", "self._runloop_task = loop.create_task(self._run_loop(), name=f'{self}._run_loop')"))
m('rev_F3_child_tracked_before_accept', ['C14'], S,
  ("""        # Check hard limit on total pending events (queue + in-progress)""", """        self._track_child_event(event)

        # Check hard limit on total pending events (queue + in-progress)"""),
  ("""                self._track_child_event(event)
                logger.info(""", """                logger.info("""))
m('rev_F1_take_event_before_lock', ['C04'], S,
  ("""            if not await self._wait_for_next_event(wait_for_timeout=wait_for_timeout):
                return None
            # Clear idle state when there is an event to process
            self._on_idle.clear()
""", """            if not await self._wait_for_next_event(wait_for_timeout=wait_for_timeout):
                return None
            # Clear idle state when there is an event to process
            self._on_idle.clear()
            try:
                event = self.event_queue.get_nowait()
            except asyncio.QueueEmpty:
                return None
"""),
  ("""            if from_queue:
                # Only take the event off the queue once we hold the lock. Until then it stays visible to a handler of
                # another bus that awaits it (and processes it itself), and the order of this queue is not disturbed
                try:
                    event = self.event_queue.get_nowait()
                except asyncio.QueueEmpty:
                    return None  # an awaiting handler already processed it while we waited for the lock
            assert event is not None""", """            assert event is not None"""))
m('rev_F5_no_finalise_on_cancel', ['C10'], S,
  ("""            event.event_cancel_pending_child_processing(cancelled)
            self._finish_processing_event(event)
            raise""", """            raise"""),
  ("""                if event_result.status in ('pending', 'started'):
                    event_result.update(""", """                if False and event_result.status in ('pending', 'started'):
                    event_result.update("""))
m('rev_F4_no_pending_bus_count', ['C08', 'C03'], MO,
  ("""            if self._event_pending_bus_count > 0:
                return
""", """            pass
"""),
  ("if child_event.event_status != 'completed' or child_event._event_pending_bus_count > 0:", "if child_event.event_status != 'completed':"))
m('rev_F7_swallow_cancel_while_polling', ['C16'], S,
  ("""            if self._is_running:
                # Nobody called stop(): the run loop task itself is being cancelled (e.g. asyncio.run() cancelling
                # all remaining tasks at exit). Swallowing that would keep the loop polling forever and hang the exit
                raise
            return False""", """            return False"""))
m('rev_F18_restart_on_dead_queue', ['C16'], S,
  ("""            if self.event_queue is not None and self.event_queue._is_shutdown:  # pyright: ignore[reportPrivateUsage]
                # stop() shut the queue down: a stopped bus stays stopped. Starting a new run loop on the dead queue would
                # first run events left in it after stop() returned and then poll it in a busy loop forever
                return
""", ""),
  ("""        except QueueShutDown:
            # Queue was shut down by stop(): let the run loop exit instead of polling a dead queue
            raise
        except RuntimeError:""", """        except (QueueShutDown, RuntimeError):"""))
m('rev_F19_swallow_cancel_in_cleanup', ['C16'], S,
  ("""                current_task = asyncio.current_task()
                if current_task is not None and current_task.cancelling() > 0:
                    raise""", """                pass"""))
m('rev_F13_loop_bound_semaphore', ['C20'], H,
  ("if bound_loop is not None and bound_loop is not running_loop:", "if False and bound_loop is not None and bound_loop is not running_loop:"))
m('rev_F16_own_timeouterror_replaced', ['C11'], S,
  ("""            handler_raised_it = handler_task is None or (
                handler_task.done() and not handler_task.cancelled() and handler_task.exception() is e
            )""", """            handler_raised_it = False"""))
m('rev_F17_assert_not_none', ['C12'], MO,
  ("""        event_results_by_handler_id: dict[PythonIdStr, EventResult[T_EventResultType]] = {
            handler_key: result for handler_key, result in included_results.items()
        }
""", """        event_results_by_handler_id: dict[PythonIdStr, EventResult[T_EventResultType]] = {
            handler_key: result for handler_key, result in included_results.items()
        }
        for event_result in event_results_by_handler_id.values():
            assert event_result.result is not None, f'EventResult {event_result} has no result'
"""))
m('rev_F0_inline_takes_queue_heads', ['C05'], MO,
  ("        for queued_event in bus.event_queue.queued_items():\n            if queued_event.event_id in family and bus.event_queue.remove_item(queued_event):\n                return queued_event\n        return None", "        head = bus.event_queue.queued_items()[0]\n        return head if bus.event_queue.remove_item(head) else None"))
# --- hand-written realistic regressions per property
m('c01_skip_wildcard_when_specific', ['C01'], S,
  ("""        # Add wildcard handlers (handlers registered for '*')
        applicable_handlers.extend(self.handlers.get('*', []))""", """        # Add wildcard handlers (handlers registered for '*')
        if not applicable_handlers or not event.event_parent_id:
            applicable_handlers.extend(self.handlers.get('*', []))"""))
m('c01_handler_id_without_bus', ['C01', 'C07'], MO,
  ("    return f'{id(eventbus)}.{id(handler)}'", "    return f'{id(handler)}.{id(handler)}'"))
m('c02_lifo_when_backlog', ['C02'], S,
  ("                    event = self.event_queue.get_nowait()\n                except asyncio.QueueEmpty:\n                    return None  # an awaiting handler", "                    event = self.event_queue.get_nowait() if self.event_queue.qsize() < 4 else self.event_queue._queue.pop()  # type: ignore\n                except asyncio.QueueEmpty:\n                    return None  # an awaiting handler"))
m('c03_no_parent_walk', ['C03'], S,
  ("            if parent_event.event_completed_signal and not parent_event.event_completed_signal.is_set():\n                parent_event.event_mark_complete_if_all_handlers_completed()", "            if parent_event.event_completed_signal and not parent_event.event_completed_signal.is_set() and parent_event.event_path == current.event_path:\n                parent_event.event_mark_complete_if_all_handlers_completed()"))
m('c03_children_check_shallow', ['C03', 'C04'], MO,
  ("            if not child_event.event_are_all_children_complete(_visited):\n                return False", "            pass"))
m('c04_spin_limit_small', ['C04'], MO,
  ("                max_iterations = 1000  # Prevent infinite loops", "                max_iterations = 2  # Prevent infinite loops"))
m('c05_family_excludes_descendants', ['C04'], MO,
  ("            for child in stack.pop().event_children:\n                if child.event_id not in family:", "            for child in stack.pop().event_children:\n                if child.event_id not in family and child.event_parent_id == self.event_id:"))
m('c05_jump_only_own_bus_else_head', ['C05'], MO,
  ("        for queued_event in bus.event_queue.queued_items():\n            if queued_event.event_id in family and bus.event_queue.remove_item(queued_event):\n                return queued_event\n        return None", "        for queued_event in bus.event_queue.queued_items():\n            if queued_event.event_id in family and bus.event_queue.remove_item(queued_event):\n                return queued_event\n        if bus.name not in self.event_path:\n            return None\n        head = bus.event_queue.queued_items()[0]\n        return head if bus.event_queue.remove_item(head) else None"))
m('c06_lock_only_when_many_buses', ['C06'], S,
  ("        # Always acquire the global lock (it's re-entrant across tasks)\n        async with _get_global_lock():", "        # Always acquire the global lock (it's re-entrant across tasks)\n        async with (_get_global_lock() if len(EventBus.all_instances) != 2 else contextlib.nullcontext()):"),
  ("import asyncio\nimport contextvars", "import asyncio\nimport contextlib\nimport contextvars"))
m('c07_path_appended_every_dispatch', ['C07'], S,
  ("                if self.name not in event.event_path:\n                    # preserve identity", "                if self.name not in event.event_path or event.event_path[-1] != self.name:\n                    # preserve identity"))
m('rev_F25_path_before_accept', ['C14'], S,
  ("""        # Check hard limit on total pending events (queue + in-progress)""", """        if self.name not in event.event_path:
            event.event_path.append(self.name)

        # Check hard limit on total pending events (queue + in-progress)"""))
m('c09_context_not_reset', ['C09'], S,
  ("            _current_event_context.reset(token)\n", "            pass\n"))
m('c09_child_attributed_to_first_result', ['C09'], S,
  ("                    current_event.event_results[current_handler_id].event_children.append(event)", "                    next(iter(current_event.event_results.values())).event_children.append(event)"))
m('c10_timeout_marks_completed', ['C10'], S,
  ("            event.event_result_update(handler=handler, eventbus=self, error=handler_timeout_error)\n            event.event_cancel_pending_child_processing(handler_timeout_error)", "            event.event_result_update(handler=handler, eventbus=self, result=None)\n            event.event_cancel_pending_child_processing(handler_timeout_error)"))
m('c10_timeout_doubled_for_nested', ['C10'], S,
  ("                result_value: Any = await asyncio.wait_for(handler_task, timeout=event_result.timeout)", "                result_value: Any = await asyncio.wait_for(handler_task, timeout=(event_result.timeout * 2 if event_result.timeout and event.event_parent_id else event_result.timeout))"))
m('c11_stop_after_first_failure', ['C11'], S,
  ("                except Exception as e:\n                    # Error already logged and recorded in execute_handler\n                    logger.debug(", "                except Exception as e:\n                    if isinstance(e, KeyError):\n                        break\n                    # Error already logged and recorded in execute_handler\n                    logger.debug("))
m('c11_wrap_error', ['C11'], S,
  ("            # Record error\n            event.event_result_update(handler=handler, eventbus=self, error=e)", "            # Record error\n            event.event_result_update(handler=handler, eventbus=self, error=e if not e.args or isinstance(e, ValueError) else type(e)(*e.args))"))
m('c12_skip_validation_for_containers', ['C12'], MO,
  ("            if self.result_type is not None and result is not None:", "            if self.result_type is not None and result is not None and not isinstance(result, (list, dict)):"))
m('c12_flat_dict_reverse_merge', ['C12'], MO,
  ("        for event_result in valid_results.values():\n            if not event_result.result:\n                continue", "        for event_result in reversed(list(valid_results.values())):\n            if not event_result.result:\n                continue"))
m('c12_raise_if_none_ignored_in_list', ['C12'], MO,
  ("        valid_results = await self.event_results_filtered(\n            timeout=timeout, include=include, raise_if_any=raise_if_any, raise_if_none=raise_if_none\n        )\n        return [cast(", "        valid_results = await self.event_results_filtered(\n            timeout=timeout, include=include, raise_if_any=raise_if_any, raise_if_none=raise_if_none and raise_if_any\n        )\n        return [cast("))
m('c13_evict_oldest_regardless', ['C13'], S,
  ("        # If still need to remove more, remove oldest started events\n        if events_to_remove_count > 0 and started_events:", "        # If still need to remove more, remove oldest started events\n        pending_events, started_events = started_events, pending_events\n        if events_to_remove_count > 0 and started_events:"))
m('c13_bound_off_by_one', ['C13'], S,
  ("        if self.max_history_size and len(self.event_history) > self.max_history_size:\n            self.cleanup_event_history()\n\n        return event", "        if self.max_history_size and len(self.event_history) > self.max_history_size + 1:\n            self.cleanup_event_history()\n\n        return event"))
m('c14_history_before_queue', ['C14'], S,
  ("            try:\n                self.event_queue.put_nowait(event)\n                # Only add to history after successfully queuing\n                self.event_history[event.event_id] = event\n", "            try:\n                self.event_history[event.event_id] = event\n                self.event_queue.put_nowait(event)\n"))
m('c14_swallow_queue_full', ['C14'], S,
  ("                raise  # could also block indefinitely until queue has space, but dont drop silently or delete events", "                pass"))
m('c15_join_on_done_flag_only', ['C15'], S,
  ("            join_task = asyncio.create_task(self.event_queue.join())\n            await asyncio.wait_for(join_task, timeout=remaining_timeout)", "            if self.event_queue.qsize():\n                join_task = asyncio.create_task(self.event_queue.join())\n                await asyncio.wait_for(join_task, timeout=remaining_timeout)"),
  ("            while (\n                not self._on_idle.is_set()\n                or self.events_started\n                or self.events_pending\n                or self._events_in_flight\n                or self.event_queue.qsize()  # e.g. forwarded in meanwhile: already 'completed' on the bus it came from\n            ):", "            while not self._on_idle.is_set():"))
m('c15_no_recheck_loop', ['C15'], S,
  ("            while (\n                not self._on_idle.is_set()\n                or self.events_started\n                or self.events_pending\n                or self._events_in_flight\n                or self.event_queue.qsize()  # e.g. forwarded in meanwhile: already 'completed' on the bus it came from\n            ):", "            while False:"))
m('rev_F26_inflight_not_counted', ['C15'], S,
  ("        self._events_in_flight += 1\n", "        self._events_in_flight += 0\n"),
  ("            self._events_in_flight -= 1\n", "            self._events_in_flight -= 0\n"))
m('c16_stop_waits_unbounded', ['C16'], S,
  ("            await asyncio.wait({self._runloop_task}, timeout=0.1)\n            try:\n                self._runloop_task.cancel()", "            await asyncio.wait({self._runloop_task}, timeout=None if self.events_started else 0.1)\n            try:\n                self._runloop_task.cancel()"))
m('c17_wal_before_handlers', ['C17'], S,
  ("        # Execute handlers\n        try:\n            await self._execute_handlers(event, handlers=applicable_handlers, timeout=timeout)", "        # Execute handlers\n        await self._default_wal_handler(event)\n        try:\n            await self._execute_handlers(event, handlers=applicable_handlers, timeout=timeout)"),
  ("        await self._default_log_handler(event)\n        await self._default_wal_handler(event)\n", "        await self._default_log_handler(event)\n"))
m('c17_wal_once_per_event', ['C17'], S,
  ("        if not self.wal_path:\n            return None\n", "        if not self.wal_path or (event.event_path and event.event_path[0] != self.name and len(event.event_path) > 2):\n            return None\n"))
m('c17_wal_error_propagates_for_write', ['C17'], S,
  ("        except Exception as e:\n            logger.error(f'❌ {self} Failed to save event", "        except (FileNotFoundError, NotADirectoryError, FileExistsError, IsADirectoryError) as e:\n            logger.error(f'❌ {self} Failed to save event"))
m('c17_wal_ascii_escape_off_drop_extra', ['C17'], S,
  ("            event_json = event.model_dump_json()  # pyright: ignore[reportUnknownMemberType]\n            self.wal_path.parent", "            event_json = event.model_dump_json(exclude=set(event.model_extra or {}))  # pyright: ignore[reportUnknownMemberType]\n            self.wal_path.parent"))
m('c18_cleanup_not_in_finally', ['C18'], S,
  ("        finally:\n            # Clean up handler\n            event_key: str = event_type.__name__", "        except TimeoutError:\n            raise\n        else:\n            # Clean up handler\n            event_key: str = event_type.__name__"))
m('c18_exclude_ignored_for_string_type', ['C18'], S,
  ("            if not future.done() and include(event) and not exclude(event):", "            if not future.done() and include(event) and not (exclude(event) and isinstance(event_type, type)):"))
m('c18_string_type_listens_to_everything', ['C18'], S,
  ("        self.on(event_type, notify_expect_handler)\n", "        self.on(event_type if isinstance(event_type, type) else '*', notify_expect_handler)\n"),
  ("            event_key: str = event_type.__name__ if isinstance(event_type, type) else str(event_type)  # pyright", "            event_key: str = event_type.__name__ if isinstance(event_type, type) else '*'  # pyright"))
m('c18_timeout_from_first_candidate', ['C18'], S,
  ("            if not future.done() and include(event) and not exclude(event):\n                future.set_result(event)", "            if not future.done() and include(event) and not exclude(event):\n                future.set_result(event)\n            elif not future.done() and timeout is not None and not include(event):\n                future.set_exception(TimeoutError())"))
m('c19_failure_streak_shared_between_calls', ['C19'], H,
  ("""    for attempt in range(retries + 1):
        try:
            # Execute with per-attempt timeout""", """    func.__dict__['_failures'] = 0
    for attempt in range(retries + 1):
        try:
            # Execute with per-attempt timeout"""),
  ("                current_wait = wait * (backoff_factor**attempt)", "                func.__dict__['_failures'] += 1\n                current_wait = wait * (backoff_factor ** (func.__dict__['_failures'] - 1))"))
m('c20_release_skipped_on_cancel', ['C20'], H,
  ("            finally:\n                # Clean up: decrement active operations and release semaphore\n                _track_active_operations(increment=False)\n", "            except asyncio.CancelledError:\n                _track_active_operations(increment=False)\n                raise\n            finally:\n                # Clean up: decrement active operations and release semaphore\n                _track_active_operations(increment=False)\n"),
  ("                if semaphore_acquired and semaphore:\n                    try:", "                import sys as _sys\n                if semaphore_acquired and semaphore and not isinstance(_sys.exc_info()[1], asyncio.CancelledError):\n                    try:"))
m('c20_key_ignores_class_scope', ['C20'], H,
  ("        return f'{class_name}.{base_name}'", "        return f'{base_name}'"))
m('c20_lax_enters_early', ['C20'], H,
  ("        async with asyncio.timeout(sem_timeout):\n            await semaphore.acquire()\n            return True", "        async with asyncio.timeout(sem_timeout if not semaphore_lax else min(sem_timeout, timeout)):\n            await semaphore.acquire()\n            return True"))

def main():
    for name, props, file, subs in M:
        src = open(os.path.join(REPO, file), encoding='utf-8').read()
        new = src
        ok = True
        for old, rep in subs:
            if new.count(old) != 1:
                print(f'!! {name}: pattern occurs {new.count(old)} times: {old[:60]!r}')
                ok = False
                break
            new = new.replace(old, rep)
        if not ok:
            continue
        diff = ''.join(difflib.unified_diff(src.splitlines(True), new.splitlines(True), f'a/{file}', f'b/{file}'))
        for p in props[:1]:
            d = os.path.join(OUT, p)
            os.makedirs(d, exist_ok=True)
            with open(os.path.join(d, name + '.diff'), 'w', encoding='utf-8') as f:
                f.write(f'# expect: {",".join(props)}\n' + diff)
    print(len(M), 'mutants')
main()
