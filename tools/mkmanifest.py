#!/usr/bin/env python3
"""Regenerate MANIFEST.json. Claimed = property modules listed in CLAIMED; everything else goes to not_applicable."""
import json, os, sys
HERE = os.path.dirname(os.path.dirname(os.path.abspath(__file__)))
VT = 'property-based testing (Hypothesis-generated scenarios, virtual-time asyncio loop) against '
CHECKS = {
 'C01': ('exploration', 'Every generated (event,bus) acceptance x matching handler had exactly one handler entry and one terminal result, over generated programs, histories and schedules (durations, yields, bus order).', VT + 'an exactly-once invariant over the trace'),
 'C02': ('exploration', 'Per-bus start order equals enqueue order except for awaited events/descendants, and no serial bus started an event while another of its handlers ran un-suspended, over generated bursts, forwarding and awaits.', VT + 'a FIFO / permitted-reordering invariant over the trace'),
 'C03': ('exploration', 'Every external await returned the same object without raising, with all results terminal and every harness-known descendant complete, and no awaiter was left blocked (bounded liveness via progress-based stall detection).', VT + 'a completion invariant at await-return and a stall detector'),
 'C04': ('exploration', 'Every in-handler await returned a complete child with complete descendants and no handler stayed blocked, over generated nesting, target buses, yields/sleeps before the await and queue contents.', VT + 'a completion invariant at in-handler await-return'),
 'C05': ('exploration', 'Between await-begin and completion of an awaited child only the child and its descendants started handlers, with generated non-empty queues on every bus (serial buses).', VT + 'a queue-jump invariant over the trace'),
 'C06': ('exploration', 'Interval analysis of all handler enter/exit/await records: no two handlers overlapped outside the three permitted cases, over generated bus first-use places and schedules.', VT + 'an overlapping-interval invariant'),
 'C07': ('exploration', 'For generated forwarding graphs the set of processing buses equalled graph reachability, each handler ran once, runs terminated, event_path matched arrival order and results accumulated.', VT + 'a graph-reachability reference model'),
 'C08': ('exploration', 'Once an event was observed complete (status + signal read at every trace record, or await returned) its fingerprint never changed at any later record; awaits on forwarded events waited for every bus.', VT + 'an online stability invariant (fingerprint comparison at every record)'),
 'C09': ('exploration', 'Parent ids, per-result children lists, explicit parents, self-parent/child and event.event_bus agreed with the harness own dispatch records over generated trees, parallel handlers and forwarding.', VT + 'the harness dispatch log as reference lineage'),
 'C10': ('exploration', 'Handlers overrunning a generated timeout stopped at the deadline with a TimeoutError result, siblings ran, every touched event completed, later events were processed and the bus reported idle.', VT + 'deadline/containment invariants with the timeout placed at every program point'),
 'C11': ('exploration', 'Raising handlers (and returned exception objects) produced error results holding the same object, all other deliveries happened once and completed, awaits did not raise, accessors re-raised the first recorded error only with raise_if_any.', VT + 'an isolation invariant and an accessor reference model'),
 'C12': ('exploration', 'Generated result types x return values: completed results conform (independent structural checker + pydantic differential), hopeless values are errors, untyped values are stored by identity; every accessor x flag combination equals a reference implementation.', 'property-based testing (Hypothesis @given) against an independent conformance checker and a reference accessor model'),
 'C13': ('exploration', 'History length never exceeded N at any dispatch/handler enter/exit, eviction order was consistent with completed<started<pending oldest-first between consecutive snapshots, and every accepted event was handled once and awaitable.', 'stateful property-based testing (Hypothesis, generated call histories) with invariants after every step, virtual time'),
 'C14': ('exploration', 'Every dispatch either returned (event then processed once and completed) or raised (event absent from history and from every children list; the attempting parent completed), over generated queue/backlog fill states from actor and handler code.', 'stateful property-based testing (Hypothesis) with an accept/reject reference model, virtual time'),
 'C15': ('exploration', 'Every timeout-less wait_until_idle() return saw no accepted-earlier event unfinished on that bus, and every call returned once the harness saw quiescence, under concurrent dispatchers and after generated fault histories.', 'stateful property-based testing (Hypothesis) with soundness/liveness invariants, virtual time'),
 'C16': ('fault_enumeration', 'stop()/stop(timeout)/stop(clear)/cancel-all injected at generated (quick) or every (thorough, small scenarios) loop iteration of deterministic scenarios: stop returned in bounded time, no handler of the bus started afterwards, cancelled tasks terminated, no livelock.', 'fault injection at enumerated loop iterations of deterministic virtual-time scenarios (crash-point enumeration)'),
 'C17': ('fault_enumeration', 'WAL files contained exactly one line per (event,bus) processed, after the handlers, in order, each round-tripping through model_validate_json; injected I/O faults at generated/every off-loaded call never changed delivery or completion and were logged at ERROR.', 'round-trip + fault injection at enumerated I/O call positions, generated payloads (Hypothesis), virtual time'),
 'C18': ('exploration', 'expect() outcomes equalled a reference model (first match in processing order among events processed while pending; timeout at registration+timeout), and the handler registry returned to baseline after match/timeout/cancel/raising predicate.', 'stateful property-based testing (Hypothesis) against a reference model, virtual time'),
 'C19': ('exploration', 'Generated retry configurations x per-attempt scripts x cancellation instants matched a reference timing/outcome model exactly (call instants, waits, outcome, end time).', 'property-based testing (Hypothesis @given) against a reference timing model, virtual time'),
 'C20': ('exploration', 'In-progress bodies never exceeded the limit per scope key except after a lax acquisition timeout, free slots were granted at once, non-lax timeouts raised without running, capacity probes after quiescence found all slots free, across successive event loops.', 'property-based testing (Hypothesis) with a capacity invariant and probe, virtual time, successive loops'),
}
NOTE = 'Trusted base: the virtual-time loop (bvt/vloop.py: asyncio SelectorEventLoop with a jumping clock; zero CPU time between suspension points), the scenario engine and harness-side lineage (bvt/engine.py), Hypothesis. Bounded sizes (<= 5 buses, depth <= 3, <= 300 dispatches). Never establishes absence.'
CLAIMED = sys.argv[1].split(',') if len(sys.argv) > 1 else []
props = [json.loads(l)['id'] for l in open(os.path.join(HERE, 'properties.jsonl'))]
m = {
 'version': 1,
 'setup_cmd': '/venv/bin/pip install --no-index --find-links /opt/veriftools/wheels hypothesis',
 'hooks': {'guard': 'BUBUS_VERIF', 'enable': 'no hooks: all observation is through the public API; checks import bubus from the working tree of ${VERIF_REPO:-/repo}', 'baseline_off_cmd': 'cd /repo && /venv/bin/python -m pytest -ra -q -p no:cacheprovider --timeout=900 --continue-on-collection-errors', 'source_commits': [], 'add_only': True},
 'engines': [{'name': 'bvt', 'path': 'bvt/', 'serves_properties': CLAIMED, 'kind_free_text': 'Hypothesis-driven property-based testing / fault enumeration on a deterministic virtual-time asyncio loop; scenario DSL + trace oracles'}],
 'checks': [], 'not_applicable': [],
 'notes': 'Every check: ./check <ID> [--tier quick|thorough] [--replay FILE]; exit 0 held / 1 VIOLATION / 2 harness error. VERIF_SEED seeds Hypothesis (16 shards). Open known findings are listed in known_findings.txt and printed as KNOWN-FINDING lines.',
}
for p in props:
    if p in CLAIMED:
        lvl, text, tech = CHECKS[p]
        m['checks'].append({'property_id': p, 'quick_cmd': f'./check {p} --tier quick', 'thorough_cmd': f'./check {p} --tier thorough', 'evidence_file': f'evidence/{p}.json', 'replay_cmd_template': f'./check {p} --replay {{path}}', 'engine': 'bvt', 'level_claimed': {'category': lvl, 'text': text, 'design_ref': f'DESIGN.md section 5, {p}'}, 'level_note': NOTE, 'technique': tech})
    else:
        m['not_applicable'].append({'property_id': p, 'reason': 'not claimed yet: the check for this property is still being built (planned technique: same property-based framework, see DESIGN.md section 5)'})
json.dump(m, open(os.path.join(HERE, 'MANIFEST.json'), 'w'), indent=1)
print('claimed', CLAIMED)
