#!/bin/bash
# tools/thorough_all.sh [ID...] : run the thorough tier of every (or the given) check; print one line per check
cd "$(dirname "$0")/.."
ids="${@:-$(seq -f "C%02g" 1 20)}"
fail=0
for p in $ids; do
  out=$(./check $p --tier thorough --no-evidence 2>&1); rc=$?
  echo "$p exit=$rc $(echo "$out" | grep -E '^(OK|FAIL|HARNESS)' | head -1 | cut -c1-160)"
  [ $rc -ne 0 ] && { fail=1; echo "$out" | grep -E "clause=|VIOLATION|HARNESS" | head -5; }
done
exit $fail
