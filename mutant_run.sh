#!/bin/bash
# usage: ./mutant_run.sh <patch.diff> <ID> [extra check args]   -> runs ./check <ID> against a scratch copy of /repo with the patch applied
# prints the check's output; exit status = check's exit status. Scratch copy is removed afterwards.
set -u
patch="$(readlink -f "$1")"; shift
id="$1"; shift
scratch="$(mktemp -d /dev/shm/bvt-mut-XXXXXX)"
trap 'rm -rf "$scratch"' EXIT
mkdir -p "$scratch/repo"
( cd /repo && git ls-files -z | xargs -0 -I{} cp --parents {} "$scratch/repo/" ) || exit 2
# carry over uncommitted working-tree changes too (checks rebuild from the working tree)
( cd "$scratch/repo" && git init -q . 2>/dev/null && git apply --whitespace=nowarn "$patch" ) || { echo "PATCH-DOES-NOT-APPLY $patch"; exit 3; }
cd "$(dirname "$0")"
VERIF_REPO="$scratch/repo" ./check "$id" --no-evidence "$@"
