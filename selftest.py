#!/usr/bin/env python3
"""Sensitivity self-test: every patch under mutants/<ID>/ (and seeded/<name>/patch.diff) is applied to a scratch copy of
/repo (outside /repo and /verif, removed afterwards) and `./check <ID> --tier quick` must exit 1 on it.
usage: ./selftest.py [--tests] [--only SUBSTR] [--jobs N] [--seeded]"""
import argparse, concurrent.futures, glob, json, os, shutil, subprocess, sys, tempfile, time

HERE = os.path.dirname(os.path.abspath(__file__))


def scratch_with(patch):
    d = tempfile.mkdtemp(prefix='bvt-mut-', dir='/dev/shm' if os.path.isdir('/dev/shm') else None)
    repo = os.path.join(d, 'repo')
    os.makedirs(repo)
    files = subprocess.run(['git', '-C', '/repo', 'ls-files'], capture_output=True, text=True, check=True).stdout.split('\n')
    for f in files:
        if not f:
            continue
        os.makedirs(os.path.dirname(os.path.join(repo, f)) or repo, exist_ok=True)
        shutil.copy2(os.path.join('/repo', f), os.path.join(repo, f))
    subprocess.run(['git', 'init', '-q', repo], check=True)
    r = subprocess.run(['git', '-C', repo, 'apply', '--whitespace=nowarn', patch], capture_output=True, text=True)
    if r.returncode != 0:
        shutil.rmtree(d, ignore_errors=True)
        return None, r.stderr
    return d, ''


def one(job):
    pid, patch, run_tests, shards = job
    t0 = time.time()
    d, err = scratch_with(patch)
    if d is None:
        return {'patch': patch, 'property': pid, 'status': 'PATCH-FAILS', 'detail': err[:200]}
    try:
        env = dict(os.environ, VERIF_REPO=os.path.join(d, 'repo'), VERIF_SHARDS=str(shards), VERIF_BUDGET_S='240')
        r = subprocess.run([os.path.join(HERE, 'check'), pid, '--tier', 'quick', '--no-evidence'], capture_output=True, text=True, env=env, timeout=1500)
        lines = [l for l in r.stdout.splitlines() if l.startswith('  clause=') or l.startswith('VIOLATION') or l.startswith('HARNESS')]
        res = {'patch': os.path.relpath(patch, HERE), 'property': pid, 'exit': r.returncode, 'status': {0: 'MISSED', 1: 'CAUGHT', 2: 'HARNESS-ERROR'}.get(r.returncode, f'exit {r.returncode}'), 'first': (lines[0][:300] if lines else ''), 'check_s': round(time.time() - t0, 1)}
        if r.returncode == 2:
            res['first'] = (r.stdout[-600:])
        if r.returncode == 1:
            # keep the shrunk reproducer: it joins the replay tier (must stay quiet on the repaired tree)
            for l in r.stdout.splitlines():
                if l.startswith('VIOLATION') and 'replay=' in l:
                    src = l.split('replay=', 1)[1].strip()
                    name = os.path.basename(os.path.dirname(patch)) + '-' + os.path.basename(patch) if os.path.basename(patch) == 'patch.diff' else os.path.basename(patch)
                    dst_dir = os.path.join(HERE, 'replays', 'regress', pid)
                    os.makedirs(dst_dir, exist_ok=True)
                    try:
                        payload = json.load(open(src))
                        payload['found_with'] = os.path.relpath(patch, HERE)
                        payload['expect'] = 'pass'
                        json.dump(payload, open(os.path.join(dst_dir, name.replace('.diff', '') + '.json'), 'w'), indent=1, sort_keys=True)
                    except Exception:
                        pass
                    break
        if run_tests:
            t = subprocess.run(['/venv/bin/python', '-m', 'pytest', '-q', '-p', 'no:cacheprovider', '--timeout=120', '-x'], cwd=os.path.join(d, 'repo'), env=dict(os.environ, PYTHONPATH=os.path.join(d, 'repo')), capture_output=True, text=True, timeout=1500)
            tail = [l for l in t.stdout.splitlines() if ' passed' in l or ' failed' in l]
            res['suite'] = tail[-1].strip('= ') if tail else f'exit {t.returncode}'
        return res
    finally:
        shutil.rmtree(d, ignore_errors=True)


LIMITS: dict = {}


def main():
    ap = argparse.ArgumentParser()
    ap.add_argument('--tests', action='store_true')
    ap.add_argument('--only', default='')
    ap.add_argument('--jobs', type=int, default=3)
    ap.add_argument('--seeded', action='store_true')
    ap.add_argument('--out', default=os.path.join(HERE, 'SENSITIVITY.md'))
    a = ap.parse_args()
    jobs = []
    for p in sorted(glob.glob(os.path.join(HERE, 'mutants', 'C*', '*.diff'))):
        pid = os.path.basename(os.path.dirname(p))
        head = open(p, encoding='utf-8').readline()
        props = head.split(':', 1)[1].strip().split(',') if head.startswith('# expect:') else [pid]
        for q in props:
            jobs.append((q, p, a.tests and q == props[0], max(2, 16 // a.jobs)))
    if a.seeded:
        for meta in sorted(glob.glob(os.path.join(HERE, 'seeded', '*', 'meta.json'))):
            m = json.load(open(meta))
            if m.get('obsolete'):
                continue  # masked by a later fix in /repo; kept for the record (see meta.json)
            if m.get('undetectable'):
                LIMITS[os.path.join(os.path.dirname(meta), 'patch.diff')] = True  # outside the reach of the technique (see meta.json note); still run, reported as such
            for q in m.get('checks', [m['property']]):
                jobs.append((q, os.path.join(os.path.dirname(meta), 'patch.diff'), a.tests and q == m['property'], max(2, 16 // a.jobs)))
    jobs = [j for j in jobs if a.only in j[1] or a.only == j[0]]
    res = []
    with concurrent.futures.ThreadPoolExecutor(a.jobs) as ex:
        for r in ex.map(one, jobs):
            if r['status'] != 'CAUGHT' and any(r['patch'] and k.endswith(r['patch']) or k == r['patch'] for k in LIMITS):
                r['status'] = 'MISSED (documented limit)'
            print(f"{r['status']:<14} {r['property']} {r['patch']}  {r.get('first', r.get('detail', ''))[:160]}  [{r.get('check_s')}s] {r.get('suite', '')}", flush=True)
            res.append(r)
    if not a.only:
        with open(a.out, 'w', encoding='utf-8') as f:
            f.write('# Sensitivity of the checks\n\nGenerated by `./selftest.py` (each patch applied to a scratch copy of /repo; `./check <ID> --tier quick` must exit 1).\n\n| property | patch | result | first violation reported | check s | existing suite with patch |\n|---|---|---|---|---|---|\n')
            for r in res:
                f.write(f"| {r['property']} | {r['patch']} | {r['status']} | {r.get('first', '').replace('|', '/')[:200]} | {r.get('check_s', '')} | {r.get('suite', '')} |\n")
            n = sum(1 for r in res if r['status'] == 'CAUGHT')
            f.write(f'\n{n} of {len(res)} (patch, property) pairs caught.\n')
    return 0


if __name__ == '__main__':
    sys.exit(main())
