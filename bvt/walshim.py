"""WAL support for C17: deterministic replacement of anyio's worker-thread off-loading (virtual latency, fault
injection at the j-th off-loaded I/O call), temp directory per case, capture of ERROR records on the bubus logger,
and analysis of the written files."""
from __future__ import annotations

import asyncio
import json
import logging
import os
import shutil
import tempfile

import anyio.to_thread


class _Capture(logging.Handler):
    def __init__(self, ctx):
        super().__init__(level=logging.ERROR)
        self.ctx = ctx

    def emit(self, record):
        if record.levelno >= logging.ERROR:
            self.ctx.errors += 1
            self.ctx.world.rec('log-error', level=record.levelname)


class WalCtx:
    def __init__(self, world, cfg):
        self.world = world
        self.cfg = cfg
        base = '/dev/shm' if os.path.isdir('/dev/shm') else None
        self.dir = tempfile.mkdtemp(prefix='bvt-wal-', dir=base)
        self.calls = 0
        self.errors = 0
        self.faults = []
        self.result = {}
        self._orig = anyio.to_thread.run_sync
        self._logger = logging.getLogger('bubus')
        self._old_level = self._logger.level
        self._old_prop = self._logger.propagate
        self._cap = _Capture(self)
        self._open_path = {}

    def path_for(self, i):
        sub = os.path.join(self.dir, f'sub{i}')
        path = os.path.join(sub, f'w{i}.jsonl')
        kind = self.cfg.get('fault_kind')
        if kind == 'parent_is_file' and self.cfg.get('fault_bus', 0) == i:
            with open(sub, 'w') as f:
                f.write('x')
        elif kind == 'path_is_dir' and self.cfg.get('fault_bus', 0) == i:
            os.makedirs(path)
        return path

    def install(self):
        ctx = self
        w = self.world

        async def shim(func, *args, **kwargs):
            n = ctx.calls
            ctx.calls += 1
            name = getattr(func, '__name__', str(func))
            lat = ctx.cfg.get('lat') or 0
            if lat:
                await asyncio.sleep(lat)
            else:
                await asyncio.sleep(0)
            info = {}
            if name == 'open' and args:
                info['path'] = os.path.basename(str(args[0]))
            if name == 'write' and args:
                data = args[0]
                try:
                    info['ev'] = json.loads(data if isinstance(data, str) else data.decode()).get('tag')
                except Exception:  # noqa
                    info['ev'] = None
                info['len'] = len(data)
            if ctx.cfg.get('fault_kind') == 'oserror' and ctx.cfg.get('fault') is not None and n == ctx.cfg['fault']:
                ctx.faults.append({'n': n, 'op': name, **info})
                w.rec('io-fault', n=n, op=name, **info)
                exc = ctx.cfg.get('fault_exc', 'OSError')
                if exc == 'ValueError':
                    raise ValueError('I/O operation on closed file (injected)')
                if exc == 'RuntimeError':
                    raise RuntimeError('cannot schedule new futures after shutdown (injected)')
                if exc == 'UnicodeEncodeError':
                    raise UnicodeEncodeError('utf-8', 'x', 0, 1, 'surrogates not allowed (injected)')
                raise OSError(28, 'No space left on device (injected)')
            w.rec('io', n=n, op=name, **info)
            return func(*args)

        anyio.to_thread.run_sync = shim
        self._logger.setLevel(logging.ERROR)
        self._logger.propagate = False
        self._logger.addHandler(self._cap)
        return self

    def finish(self):
        """read the files back (inside the run, objects still alive) and compare every line with the original event"""
        w = self.world
        res = {'calls': self.calls, 'faults': self.faults, 'errors_logged': self.errors, 'buses': {}}
        for i, b in enumerate(w.buses):
            if b.wal_path is None:
                continue
            entry = {'path_exists': os.path.isfile(b.wal_path), 'lines': []}
            if entry['path_exists']:
                raw = open(b.wal_path, encoding='utf-8', newline='').read()
                parts = raw.split('\n')
                entry['ends_with_newline'] = raw.endswith('\n') or raw == ''
                if parts and parts[-1] == '':
                    parts = parts[:-1]
                for ln in parts:
                    row = {'ok_json': False}
                    try:
                        o = json.loads(ln)
                        row['ok_json'] = isinstance(o, dict)
                    except Exception as ex:  # noqa
                        row['err'] = f'{type(ex).__name__}: {ex}'[:100]
                        entry['lines'].append(row)
                        continue
                    tag = o.get('tag') if isinstance(o, dict) else None
                    row['ev'] = tag
                    e = w.events.get(tag)
                    if e is None:
                        row['unknown'] = True
                        entry['lines'].append(row)
                        continue
                    try:
                        back = type(e).model_validate_json(ln)
                    except Exception as ex:  # noqa
                        row['validate_err'] = f'{type(ex).__name__}: {ex}'[:200]
                        entry['lines'].append(row)
                        continue
                    diffs = []
                    for f in ('event_id', 'event_type', 'event_parent_id', 'tag', 'depth', 'blob', 'when', 'txt', 'event_timeout', 'event_created_at'):
                        if getattr(back, f) != getattr(e, f):
                            diffs.append((f, repr(getattr(back, f))[:60], repr(getattr(e, f))[:60]))
                    extra_o = e.model_extra or {}
                    extra_b = back.model_extra or {}
                    if extra_o != extra_b:
                        diffs.append(('extra', repr(extra_b)[:80], repr(extra_o)[:80]))
                    row['diffs'] = diffs
                    row['path'] = list(back.event_path)
                    row['final_path'] = list(e.event_path)
                    row['same_class'] = type(back) is type(e)
                    entry['lines'].append(row)
            res['buses'][b.name] = entry
        self.result.update(res)

    def uninstall(self):
        anyio.to_thread.run_sync = self._orig
        self._logger.removeHandler(self._cap)
        self._logger.setLevel(self._old_level)
        self._logger.propagate = self._old_prop
        shutil.rmtree(self.dir, ignore_errors=True)


def install(world, cfg):
    return WalCtx(world, cfg).install()
