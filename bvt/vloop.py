"""Deterministic virtual-time asyncio event loop.

The clock never sleeps: when nothing is ready the clock jumps to the next
scheduled timer.  A scenario that takes 9 virtual seconds runs in
milliseconds, is repeatable, and "hangs forever" becomes the decidable
statement "still blocked at the virtual horizon" / Hang raised.
"""
from __future__ import annotations

import asyncio
import contextlib


class Hang(Exception):
    """The loop cannot make progress (deadlock) or spins without advancing time (livelock)."""

    def __init__(self, kind: str, detail: str = ''):
        super().__init__(f'{kind}: {detail}' if detail else kind)
        self.kind = kind


class VLoop(asyncio.SelectorEventLoop):
    def __init__(self, spin_budget: int = 30_000, max_iterations: int = 5_000_000):
        super().__init__()
        self._vt = 0.0
        self.iterations = 0
        self.spin_budget = spin_budget
        self.max_iterations = max_iterations
        self._spin_count = 0
        self._spin_vt = 0.0
        self._hooks: dict[int, list] = {}
        self._clock_resolution = 1e-12
        self.time_advances = 0
        real_select = self._selector.select

        def select(timeout=None):
            if timeout is None:
                # nothing ready, no timers: a real loop would block forever
                raise Hang('deadlock', 'nothing runnable and no timers')
            if timeout > 0 and self._scheduled:
                when = self._scheduled[0]._when
                if when > self._vt:
                    self._vt = when
                    self.time_advances += 1
            return real_select(0)

        self._selector.select = select

    def time(self) -> float:
        return self._vt

    def _run_once(self):
        self.iterations += 1
        hooks = self._hooks.pop(self.iterations, None)
        if hooks:
            for h in hooks:
                h()
        if self._vt != self._spin_vt:
            self._spin_vt = self._vt
            self._spin_count = 0
        self._spin_count += 1
        if self._spin_count > self.spin_budget:
            raise Hang('spinning', f'{self._spin_count} loop iterations at virtual time {self._vt}')
        if self.iterations > self.max_iterations:
            raise Hang('budget', f'{self.iterations} loop iterations')
        super()._run_once()

    def at_iteration(self, k: int, cb) -> None:
        """Run cb() right before loop iteration k (1-based, absolute)."""
        self._hooks.setdefault(k, []).append(cb)

    def run_in_executor(self, executor, func, *args):
        # deterministic: run inline at the next loop iteration, no real threads
        fut = self.create_future()

        def go():
            if fut.cancelled():
                return
            try:
                fut.set_result(func(*args))
            except BaseException as e:  # noqa
                fut.set_exception(e)

        self.call_soon(go)
        return fut


@contextlib.contextmanager
def fresh_loop(**kw):
    loop = VLoop(**kw)
    asyncio.set_event_loop(loop)
    try:
        yield loop
    finally:
        try:
            loop._hooks.clear()
            pending = [t for t in asyncio.all_tasks(loop) if not t.done()]
            for t in pending:
                t.cancel()
            if pending:
                for _ in range(5):
                    try:
                        loop.run_until_complete(asyncio.sleep(0))
                    except BaseException:  # noqa
                        pass
                    if all(t.done() for t in pending):
                        break
            for t in pending:
                if hasattr(t, '_log_destroy_pending'):
                    t._log_destroy_pending = False
        finally:
            try:
                loop.close()
            except BaseException:  # noqa
                pass
            asyncio.set_event_loop(None)
