"""Scenario engine ("world"): runs a JSON scenario (program + history + schedule) against the real
bubus code on the virtual-time loop and records a trace through the public API only.

Scenario format (all plain JSON):

  buses    : [{par: bool, hist: int|None, rank: int, wal: bool}]   rank = generated __hash__ => all_instances order
  fwd      : [[src, dst, pat]]            pat = '*' | type index (class pattern) | 's<idx>' (string pattern)
  handlers : [{bus, bus2?, pat, kind, prog: [op...], ret}]
  actors   : [[op...], ...]               concurrent pieces of ordinary (non-handler) code
  maxdepth : int                          handler dispatch ops only run while event.depth < maxdepth
  cap      : int                          max dispatch attempts per scenario (harness-level cap)
  warm     : bool                         start every run loop (own event type) before the actors begin
  timeouts : {typeidx(str): float}        default event_timeout per event type (None otherwise)
  inject   : {...}                        fault injection at loop iteration k (C16)
  wal      : {...}                        WAL shim settings (C17)

handler ops : ['sleep', d] ['yield', k] ['disp', bus, type, mode, flags] ['awaitall'] ['raise', kind] ['fan', bus, n, retry]
              ['readbus'] ;  type = int | 'n' (= E[depth+1]) ; mode = 'await' | 'later' | 'ff'
actor ops   : ['disp', bus, type, flags] ['redisp', root, bus] ['await', root] ['awaitdesc', root, k]
              ['sleep', d] ['yield', k] ['idle', bus, timeout] ['stop', bus, timeout, clear]
              ['acc', root, name, raise_if_any, raise_if_none] ['status', root] ['burst', bus, type, n, flags] ['expect', bus, type, timeout]
"""
from __future__ import annotations

import asyncio
import contextvars
import datetime
import logging
import os
from typing import Any

from bubus import BaseEvent, EventBus

from bvt.vloop import Hang, VLoop

POLL_SILENCE = 0.375


# ---------------------------------------------------------------------------
# event pool (module level so that pydantic can resolve them)


class E0(BaseEvent):
    tag: int = -1
    depth: int = 0
    blob: Any = None
    when: datetime.datetime | None = None
    txt: str = ''


class E1(BaseEvent):
    tag: int = -1
    depth: int = 0
    blob: Any = None
    when: datetime.datetime | None = None
    txt: str = ''


class E2(BaseEvent):
    tag: int = -1
    depth: int = 0
    blob: Any = None
    when: datetime.datetime | None = None
    txt: str = ''


class E3(BaseEvent):
    tag: int = -1
    depth: int = 0
    blob: Any = None
    when: datetime.datetime | None = None
    txt: str = ''


class WarmUp(BaseEvent):
    tag: int = -1
    depth: int = 0


ET = [E0, E1, E2, E3]


def bus_name(sc, i) -> str:
    """name of bus i: 'B<i>' unless the scenario supplies names (e.g. names that contain each other)"""
    names = sc.get('names')
    return names[i] if names else f'B{i}'


class HarnessError(Exception):
    pass


class BoomError(Exception):
    """Custom exception with payload raised by scenario handlers."""

    def __init__(self, who, payload=None):
        super().__init__(f'boom {who}')
        self.who = who
        self.payload = payload


class EmptyAggregateError(Exception):
    """an aggregate error carrying a list of per-item failures - falsy when the list is empty (defines __len__)"""

    def __init__(self, who):
        super().__init__(f'aggregate {who}')
        self.failures = []

    def __len__(self):
        return len(self.failures)


RAISE = {
    'falsy': lambda who: EmptyAggregateError(who),
    'VE': lambda who: ValueError(f'boom {who}'),
    'custom': lambda who: BoomError(who, {'k': [1, 2]}),
    'TO': lambda who: TimeoutError(f'handler-raised timeout {who}'),
    'KE': lambda who: KeyError(f'boom {who}'),
    'RT': lambda who: RuntimeError(f'boom {who}'),
    'ITO': lambda who: TimeoutError(f'inner timeout {who}'),
    'chain': lambda who: ValueError(f'boom {who}'),  # (sync handlers: built below)
    'CE': lambda who: RuntimeError(f'boom {who}'),  # (never reached: both handler kinds raise a real CancelledError, see below)
}


_CUR_BUS: contextvars.ContextVar = contextvars.ContextVar('bvt_cur_bus', default=None)


class _ObservedMixin:
    """EventBus whose public dispatch() is logged, with a generated hash that pins all_instances order."""

    _bvt_world: Any = None
    _bvt_rank: int = 0

    def __hash__(self):  # pins (and generates) the iteration order of EventBus.all_instances
        return self._bvt_rank

    def __eq__(self, other):
        return self is other

    async def execute_handler(self, *a, **kw):  # only used to tell a function registered on two buses which bus runs it
        tok = _CUR_BUS.set(self.name)
        try:
            return await super().execute_handler(*a, **kw)
        finally:
            _CUR_BUS.reset(tok)

    def dispatch(self, event):  # type: ignore[override]
        w = self._bvt_world
        tag = getattr(event, 'tag', None)
        if w is None or isinstance(event, WarmUp):
            return super().dispatch(event)
        w.rec('enq-call', bus=self.name, ev=tag)
        try:
            r = super().dispatch(event)
        except BaseException as e:  # noqa
            w.rec('enq-rej', bus=self.name, ev=tag, exc=type(e).__name__)
            raise
        w.rec('enq-ok', bus=self.name, ev=tag, same=(r is event))
        return r


class ObservedBus(_ObservedMixin, EventBus):
    pass


class ObservedBusB(_ObservedMixin, EventBus):
    """a second, sibling subclass of EventBus: applications do subclass the bus, and buses of different classes must
    still exclude each other"""


BUS_CLASSES = [ObservedBus, ObservedBusB]


RTYPES = {'ius': int | str | None, 'any': Any}


def short(v):
    if isinstance(v, BaseEvent):
        return ['event', getattr(v, 'tag', None)]
    if isinstance(v, BaseException):
        return ['exc', type(v).__name__]
    try:
        s = repr(v)
    except Exception:  # noqa
        s = '<unrepr>'
    return s[:60]


class World:
    def __init__(self, sc: dict, loop):
        self.sc = sc
        self.loop = loop
        self.trace: list[dict] = []
        self.events: dict[int, BaseEvent] = {}
        self.buses: list[ObservedBus] = []
        self.roots: list[int] = []  # tags of actor-dispatched events in creation order
        self.parent: dict[int, Any] = {}  # tag -> dispatcher: ('A', i) or (bus, evtag, hi)
        self.children: dict[int, list[int]] = {}  # tag -> child tags (harness lineage)
        self.raised: dict[tuple, BaseException] = {}
        self.retobj: dict[tuple, Any] = {}
        self.running: dict[tuple, dict] = {}  # me -> state
        self.ndisp = 0
        self.next_tag = 0
        self.base_time = datetime.datetime(2026, 1, 1, tzinfo=datetime.UTC)
        self.watch = bool(sc.get('watch'))
        self.observed_complete: dict[int, Any] = {}
        self.stability: list[dict] = []
        self.hooks: list = []  # callables(rec) invoked on every record (oracles needing online checks)
        self.actor_state: dict[int, Any] = {}
        self.keep: list = []
        self.cap = int(sc.get('cap', 300))
        self.maxdepth = int(sc.get('maxdepth', 3))
        self._in_watch = False
        self.finished = False
        self.payload_of: dict = {}
        self.histwatch = bool(sc.get('histwatch'))
        self.hist_viol: list = []
        self._hist_prev: dict = {}
        self.hist_evictions = 0
        self.hist_evicted_inflight = 0
        self.replica_of: dict = {}  # tag of a replica object -> tag of the event it was rebuilt from (same event_id)
        self.hre_parent: dict = {}  # root tag -> tag of the event whose handler re-dispatched it first (it becomes its parent)
        self.accepted: set = set()

    # -- trace
    def rec(self, k, **kw):
        r = {'k': k, 'i': len(self.trace), 't': self.loop.time()}
        r.update(kw)
        self.trace.append(r)
        if k == 'enq-ok':
            self.accepted.add(kw.get('ev'))
        if self.watch and not self._in_watch:
            self._in_watch = True
            try:
                self._watch_completion(r)
            finally:
                self._in_watch = False
        if self.histwatch:
            self._watch_history(r)
        for h in self.hooks:
            h(r)
        return r

    # -- events
    def new_event(self, typ: int, depth: int, flags: dict | None):
        flags = flags or {}
        tag = self.next_tag
        self.next_tag += 1
        kw: dict[str, Any] = {}
        to = flags.get('to', (self.sc.get('timeouts') or {}).get(str(typ)))
        kw['event_timeout'] = float('inf') if to == 'inf' else to
        xp = flags.get('xp')
        if xp == 'fake':
            kw['event_parent_id'] = '01234567-89ab-cdef-0123-456789abcdef'
        elif xp == 'root0' and self.roots:
            kw['event_parent_id'] = self.events[self.roots[0]].event_id
        pl = flags.get('pl')
        if pl is not None and self.sc.get('payloads'):
            self.payload_of[tag] = pl % len(self.sc['payloads'])
            p = self.sc['payloads'][pl % len(self.sc['payloads'])]
            for k, v in p.items():
                if v == '__callable__':
                    v = print  # a value with no JSON form at all (a callback / handle carried in an Any field)
                kw[k] = datetime.datetime.fromisoformat(v) if k == 'when' and isinstance(v, str) else v
        rt = (self.sc.get('rtypes') or {}).get(str(typ))
        if rt:
            # a declared result type every value the harness handlers return conforms to (int index, short string, None)
            kw['event_result_type'] = RTYPES[rt]
        e = ET[typ](tag=tag, depth=depth, event_created_at=self.base_time + datetime.timedelta(milliseconds=tag + 1), **kw)
        self.events[tag] = e
        return tag, e

    def is_complete(self, e) -> bool:
        sig = e.event_completed_signal
        return bool(
            e.event_status == 'completed'
            and sig is not None
            and sig.is_set()
            and all(r.status in ('completed', 'error') for r in e.event_results.values())
        )

    def accepted_tags(self) -> set:
        return {r['ev'] for r in self.trace if r['k'] == 'enq-ok'}

    def descendants(self, tag) -> list[int]:
        out, st, seen = [], [tag], {tag}
        while st:
            for c in self.children.get(st.pop(), []):
                if c not in seen:  # (lineage can be a DAG when handlers dispatch existing objects again)
                    seen.add(c)
                    out.append(c)
                    st.append(c)
        return out

    def incomplete_descendants(self, tag) -> list[int]:
        acc = self._accepted
        return [d for d in self.descendants(tag) if d in acc and not self.is_complete(self.events[d])]

    def result_rows(self, e) -> list:
        rows = []
        for r in e.event_results.values():
            rows.append(
                {
                    'h': r.handler_name.split('.')[-1],
                    'hn': r.handler_name,
                    'bus': r.eventbus_name,
                    'st': r.status,
                    'res': short(r.result),
                    'err': type(r.error).__name__ if r.error is not None else None,
                    'errkey': self._raised_key(r.error),
                    'reskey': self._ret_key(r.result),
                    'kids': [getattr(c, 'tag', None) for c in r.event_children],
                    'rid': r.id,
                    'to': r.timeout,
                }
            )
        return rows

    def _raised_key(self, err):
        if err is None:
            return None
        for k, v in self.raised.items():
            if v is err:
                return list(k)
        return None

    def _ret_key(self, res):
        if res is None:
            return None
        for k, v in self.retobj.items():
            if v is res:
                return list(k)
        return None

    def snap(self, tag) -> dict:
        e = self.events[tag]
        sig = e.event_completed_signal
        return {
            'status': e.event_status,
            'sig': bool(sig is not None and sig.is_set()),
            'parent': e.event_parent_id,
            'id': e.event_id,
            'path': list(e.event_path),
            'type': type(e).__name__,
            'depth': e.depth,
            'results': self.result_rows(e),
        }

    # -- C13 online history watch (bounded histories on any number of buses; same conservative rules as bvt.histworld.observe)
    _PRI = {'completed': 0, 'started': 1, 'pending': 2}

    def _watch_history(self, r):
        for bus in self.buses:
            N = bus.max_history_size
            if N is None:
                continue
            hist = dict(bus.event_history)
            if len(hist) > N and r['k'] in ('enq-ok', 'exit', 'quiet'):
                self.hist_viol.append(('C13.a', f'{bus.name}: history holds {len(hist)} events > max_history_size {N} at idx {r["i"]} ({r["k"]})'))
            snap = {eid: (e, e.event_status) for eid, e in hist.items()}
            prev = self._hist_prev.get(bus.name)
            if prev is not None:
                for eid, (e, _s_prev) in prev.items():
                    if eid in snap:
                        continue
                    self.hist_evictions += 1
                    now_s = e.event_status
                    if now_s != 'completed':
                        self.hist_evicted_inflight += 1
                    for rid, (re_, rs_prev) in prev.items():
                        if rid in snap and self._PRI[rs_prev] < self._PRI[now_s]:
                            self.hist_viol.append(('C13.b', f'{bus.name} at idx {r["i"]}: event {getattr(e, "tag", "?")} (status {now_s}) was evicted while event {getattr(re_, "tag", "?")} (already {rs_prev} at the previous observation) remains in the history'))
                            break
            self._hist_prev[bus.name] = snap

    # -- C08 online stability watch
    def _fingerprint(self, e):
        # identity AND content of each recorded value: a list / dict result mutated in place keeps its identity
        return (e.event_status, tuple((r.id, r.handler_id, r.status, id(r.result), id(r.error), str(short(r.result))) for r in e.event_results.values()))

    def mark_observed_complete(self, tag, how, at=None):
        if tag in self.observed_complete:
            return
        e = self.events[tag]
        self.observed_complete[tag] = {'fp': self._fingerprint(e), 'at': (len(self.trace) - 1) if at is None else at, 'how': how, 'rows': self.result_rows(e)}

    def _watch_completion(self, r):
        for tag, e in self.events.items():
            oc = self.observed_complete.get(tag)
            if oc is None:
                if e._event_completed_signal is not None and e._event_completed_signal.is_set() and e.event_status == 'completed':
                    self.mark_observed_complete(tag, 'status-read', at=r['i'])
                continue
            if oc.get('reported'):
                continue
            fp = self._fingerprint(e)
            if fp != oc['fp']:
                oc['reported'] = True
                self.stability.append({'ev': tag, 'observed_at': oc['at'], 'how': oc['how'], 'changed_at': len(self.trace) - 1, 'before': oc['rows'], 'status_before': oc['fp'][0], 'status_now': e.event_status, 'after': self.result_rows(e)})

    @property
    def _accepted(self):
        return self.accepted


# ---------------------------------------------------------------------------
# handler construction


def _bus_of_running(w: World, hspec, ev, hname, hi) -> str:
    """Which bus is running this handler invocation (only ambiguous for a function registered on two buses)."""
    b1 = bus_name(w.sc, hspec['bus'])
    if hspec.get('bus2') is None:
        return b1
    cur = _CUR_BUS.get()
    if cur in (b1, bus_name(w.sc, hspec['bus2'])):
        return cur
    started = [r.eventbus_name for r in ev.event_results.values() if r.handler_name.split('.')[-1] == hname and r.status == 'started']
    already = {m[0] for m in w.running if m[1] == ev.tag and m[2] == hi}
    cands = [b for b in started if b not in already]
    if len(cands) >= 1:
        return cands[-1]
    return b1


def make_handler(w: World, hi: int, hspec: dict):
    prog = hspec.get('prog', [])
    ret = hspec.get('ret', 'idx')
    kind = hspec.get('kind', 'async')
    hname = f'h{hi}'
    loop = w.loop

    def retval(me):
        if ret == 'idx':
            return hi
        if ret == 'none':
            return None
        if ret in ('excobj', 'excobj_to'):
            ex = ValueError(f'returned-exc {me}') if ret == 'excobj' else TimeoutError(f'returned-timeout-object {me}')
            w.raised[tuple(me)] = ex
            return ex
        if ret == 'str':
            return f'r{hi}'
        if ret == 'dict':
            return {f'k{hi}': hi}
        if ret == 'list':
            return [hi]
        if ret == 'obj':
            o = object()
            w.retobj[tuple(me)] = o
            return o
        return hi

    def do_dispatch(ev, me, op, pend, refused=None):
        _, tb, typ, mode = op[:4]
        flags = op[4] if len(op) > 4 else None
        if ev.depth >= w.maxdepth or w.ndisp >= w.cap:
            w.rec('disp-skip', by=list(me))
            return None
        w.ndisp += 1
        t = min(ev.depth + 1, len(ET) - 1) if typ == 'n' else int(typ)
        tag, child = w.new_event(t, ev.depth + 1, flags)
        w.parent[tag] = tuple(me)
        rec = w.rec('disp', by=list(me), ev=tag, bus=bus_name(w.sc, tb), mode=mode, xp=(flags or {}).get('xp'))
        try:
            got = w.buses[tb].dispatch(child)
        except Exception as ex:  # rejected dispatch
            rec['ok'] = False
            rec['exc'] = type(ex).__name__
            w.rec('disp-rej', by=list(me), ev=tag, exc=type(ex).__name__)
            if refused is not None:
                refused.append(tag)
            return None
        rec['ok'] = True
        rec['same'] = got is child
        w.children.setdefault(ev.tag, []).append(tag)
        return tag

    def do_hredisp(ev, me, op):
        """['hredisp', k, bus]: the handler dispatches an EXISTING event object (one that ordinary code dispatched earlier, e.g. a job
        to be retried) again - not the event it is handling. Lineage bookkeeping of the harness (parent / children maps) is left alone."""
        # never an ancestor of the event being handled (through ordinary lineage or an earlier re-dispatch): the user would be building
        # a parent cycle, which no property speaks about
        anc, x, hops = {ev.tag}, ev.tag, 0
        while x is not None and hops < 1000:
            hops += 1
            p = w.parent.get(x)
            x = p[1] if (p is not None and p[0] != 'A') else w.hre_parent.get(x)
            if x is None or x in anc:
                break
            anc.add(x)
        if w.sc.get('hre_any'):
            # with re-dispatch of arbitrary objects lineage is a DAG: everything that reaches this event through children links
            rev = {}
            for par_, kids_ in w.children.items():
                for k_ in kids_:
                    rev.setdefault(k_, set()).add(par_)
            stack = list(anc)
            while stack:
                for par_ in rev.get(stack.pop(), ()):
                    if par_ not in anc:
                        anc.add(par_)
                        stack.append(par_)
        # ... nor an object with the id of the event being handled (its replica / original): dispatching that is forwarding
        pool = list(w.roots)
        if w.sc.get('hre_any'):
            # ... also objects that some handler dispatched first (they already have a recorded dispatcher / parent)
            # (only objects still in flight: dispatching a COMPLETED object again is excluded from the completion properties)
            pool = sorted(t for t in w.accepted if t is not None and t >= 0 and not w.is_complete(w.events[t]))
        cands = [t for t in pool if t not in anc and w.events[t].event_id != ev.event_id]
        if not cands or w.ndisp >= w.cap:
            w.rec('disp-skip', by=list(me))
            return
        w.ndisp += 1
        tag = cands[op[1] % len(cands)]
        obj = w.events[tag]
        rec = w.rec('disp', by=list(me), ev=tag, bus=bus_name(w.sc, op[2]), mode='ff', xp=None, hre=True, had_parent=obj.event_parent_id is not None, in_path=bus_name(w.sc, op[2]) in obj.event_path)
        try:
            got = w.buses[op[2]].dispatch(obj)
        except Exception as ex:
            rec['ok'] = False
            rec['exc'] = type(ex).__name__
            w.rec('disp-rej', by=list(me), ev=tag, exc=type(ex).__name__)
            return
        rec['ok'] = True
        rec['same'] = got is obj
        if not rec['had_parent']:
            w.hre_parent[tag] = ev.tag
        if w.sc.get('hre_any') and tag not in w.children.get(ev.tag, []):
            # harness lineage for the completion oracles: whatever a handler dispatches - a fresh or an existing object - has to be
            # complete before the handler's event is (never an ancestor, so no cycle)
            w.children.setdefault(ev.tag, []).append(tag)

    def do_fwdreplica(ev, me, op):
        """['fwdreplica', bus]: the handler forwards a REPLICA of the event it is handling - same event_id, different object (the event
        went through model_dump / model_validate, as it does across a process bridge or a WAL replay) - to another bus"""
        if w.ndisp >= w.cap:
            w.rec('disp-skip', by=list(me))
            return
        w.ndisp += 1
        tag = w.next_tag
        w.next_tag += 1
        rep = type(ev).model_validate({**ev.model_dump(), 'tag': tag})
        w.events[tag] = rep
        w.replica_of[tag] = ev.tag
        rec = w.rec('disp', by=list(me), ev=tag, bus=bus_name(w.sc, op[1]), mode='ff', xp=None, rep=True, of=ev.tag)
        try:
            got = w.buses[op[1]].dispatch(rep)
        except Exception as ex:
            rec['ok'] = False
            rec['exc'] = type(ex).__name__
            w.rec('disp-rej', by=list(me), ev=tag, exc=type(ex).__name__)
            return
        rec['ok'] = True
        rec['same'] = got is rep

    def do_twin(ev, me, op):
        """['twin', bus]: the handler creates a child, and a replica of it (same event_id, other object: it went through a dump), hands
        the replica and then the original to one bus and awaits the original. Both objects were accepted, both must be processed."""
        if ev.depth >= w.maxdepth or w.ndisp + 2 > w.cap:
            w.rec('disp-skip', by=list(me))
            return None
        w.ndisp += 2
        t = min(ev.depth + 1, len(ET) - 1)
        otag, orig = w.new_event(t, ev.depth + 1, None)
        rtag = w.next_tag
        w.next_tag += 1
        rep = type(orig).model_validate({**orig.model_dump(), 'tag': rtag})
        w.events[rtag] = rep
        w.replica_of[rtag] = otag
        w.parent[otag] = tuple(me)
        out_tag = None
        for tag, obj, isrep in ((rtag, rep, True), (otag, orig, False)):
            rec = w.rec('disp', by=list(me), ev=tag, bus=bus_name(w.sc, op[1]), mode='await' if not isrep else 'ff', xp=None, **({'rep': True, 'of': otag, 'twin': True} if isrep else {'twin': True}))
            try:
                got = w.buses[op[1]].dispatch(obj)
            except Exception as ex:
                rec['ok'] = False
                rec['exc'] = type(ex).__name__
                w.rec('disp-rej', by=list(me), ev=tag, exc=type(ex).__name__)
                continue
            rec['ok'] = True
            rec['same'] = got is obj
            if not isrep:
                w.children.setdefault(ev.tag, []).append(tag)
                out_tag = tag
        return out_tag

    def do_redispatch(ev, me, tb, tag):
        """the handler hands a child object the bus refused earlier to the same bus again"""
        child = w.events[tag]
        rec = w.rec('disp', by=list(me), ev=tag, bus=bus_name(w.sc, tb), mode='ff', xp=None, again=True)
        try:
            got = w.buses[tb].dispatch(child)
        except Exception as ex:
            rec['ok'] = False
            rec['exc'] = type(ex).__name__
            w.rec('disp-rej', by=list(me), ev=tag, exc=type(ex).__name__)
            return False
        rec['ok'] = True
        rec['same'] = got is child
        w.children.setdefault(ev.tag, []).append(tag)
        return True

    async def do_await(me, tag, via_accessor=False):
        child = w.events[tag]
        st = w.running.get(tuple(me))
        w.rec('aw-begin', by=list(me), ev=tag, already=w.is_complete(child), acc=via_accessor)
        if st is not None:
            st['awaiting'] = tag
        try:
            if via_accessor:
                # the documented one-liner `await bus.dispatch(Child()).event_result()`: the handler waits for the child through a
                # result accessor instead of awaiting the event itself
                try:
                    # (an accessor does not process the child inline: without any timeout the handler would wait for ever for a bus that
                    # cannot move on - outside every property here -, so a child without event_timeout is waited for with an explicit one)
                    finite = child.event_timeout is not None and child.event_timeout != float('inf')
                    await child.event_result(timeout=None if finite else 0.3125, raise_if_any=False, raise_if_none=False)
                except asyncio.CancelledError:
                    raise
                except Exception as ex:  # noqa
                    w.rec('aw-acc-exc', by=list(me), ev=tag, exc=type(ex).__name__)
                got = child
            else:
                got = await child
        finally:
            if st is not None:
                st['awaiting'] = None
        inc = w.incomplete_descendants(tag)
        w.rec('aw-end', by=list(me), ev=tag, same=got is child, complete=w.is_complete(child), inc=inc, statuses=[r.status for r in child.event_results.values()], acc=via_accessor)
        if w.watch and w.is_complete(child):
            w.mark_observed_complete(tag, 'handler-await')

    async def run_async(ev):
        if isinstance(ev, WarmUp):
            return None
        bus = _bus_of_running(w, hspec, ev, hname, hi)
        me = (bus, ev.tag, hi)
        w.running[me] = {'awaiting': None, 'enter': len(w.trace)}
        w.rec('enter', bus=bus, ev=ev.tag, h=hi, same=w.events.get(ev.tag) is ev)
        how = 'return'
        own_cancel = False
        try:
            pend: list[int] = []
            for oi, op in enumerate(prog):
                k = op[0]
                if k == 'sleep':
                    await asyncio.sleep(op[1])
                elif k == 'yield':
                    for _ in range(op[1]):
                        await asyncio.sleep(0)
                elif k == 'disp':
                    tag = do_dispatch(ev, me, op, pend)
                    if tag is not None:
                        if op[3] in ('await', 'awaitacc'):
                            await do_await(me, tag, op[3] == 'awaitacc')
                        elif op[3] == 'later':
                            pend.append(tag)
                elif k == 'awaitall':
                    for tag in pend:
                        await do_await(me, tag)
                    pend = []
                elif k == 'hredisp':
                    do_hredisp(ev, me, op)
                elif k == 'fwdreplica':
                    do_fwdreplica(ev, me, op)
                elif k == 'twin':
                    tag = do_twin(ev, me, op)
                    if tag is not None:
                        await do_await(me, tag)
                elif k == 'fan':
                    # fan out op[2] fire-and-forget children to one bus; the bus may refuse some (back-pressure). With op[3] the
                    # handler does what the error message says: waits for the accepted ones, then dispatches the refused objects again
                    okd, refused = [], []
                    for _ in range(op[2]):
                        tag = do_dispatch(ev, me, ['disp', op[1], 'n', 'ff'], pend, refused)
                        if tag is not None:
                            okd.append(tag)
                    if op[3] and refused:
                        for tag in okd:
                            await do_await(me, tag)
                        for tag in refused:
                            do_redispatch(ev, me, op[1], tag)
                elif k == 'raise':
                    if op[1] == 'ITO':
                        # the handler's own inner timeout expires: a TimeoutError chained from a CancelledError
                        try:
                            await asyncio.wait_for(asyncio.sleep(3600), 0.03125)
                        except TimeoutError as ex:
                            w.raised[me] = ex
                            raise
                    if op[1] == 'chain':
                        try:
                            raise KeyError(f'inner {list(me)}')
                        except KeyError as inner:
                            ex = ValueError(f'boom (chained) {list(me)}')
                            w.raised[me] = ex
                            raise ex from inner
                    if op[1] == 'CE':
                        # the handler awaits something that was cancelled (a background task, a future): CancelledError
                        # comes out of the handler although nobody cancelled the handler itself
                        fut = loop.create_future()
                        fut.cancel()
                        own_cancel = True
                        await fut
                    ex = RAISE[op[1]](list(me))
                    w.raised[me] = ex
                    raise ex
                elif k == 'readbus':
                    try:
                        b = ev.event_bus
                        w.rec('readbus', by=list(me), got=getattr(b, 'name', repr(b)), same=any(b is x for x in w.buses))
                    except Exception as ex:  # noqa
                        w.rec('readbus', by=list(me), got=None, exc=type(ex).__name__)
                w.rec('mark', bus=bus, ev=ev.tag, h=hi, op=oi)
            return retval(me)
        except asyncio.CancelledError:
            how = 'raise-cancelled' if own_cancel else 'cancelled'
            if own_cancel:
                raise
            if hspec.get('cleanup'):
                # cooperative cancellation: the handler needs some time to unwind (async cleanup in a finally block)
                w.rec('cleanup-begin', bus=bus, ev=ev.tag, h=hi)
                try:
                    await asyncio.sleep(hspec['cleanup'])
                except asyncio.CancelledError:
                    pass
                w.rec('cleanup-end', bus=bus, ev=ev.tag, h=hi)
            raise
        except BaseException:
            how = 'raise'
            raise
        finally:
            w.running.pop(me, None)
            w.rec('exit', bus=bus, ev=ev.tag, h=hi, how=how)

    def run_sync(ev):
        if isinstance(ev, WarmUp):
            return None
        bus = _bus_of_running(w, hspec, ev, hname, hi)
        me = (bus, ev.tag, hi)
        w.running[me] = {'awaiting': None, 'enter': len(w.trace)}
        w.rec('enter', bus=bus, ev=ev.tag, h=hi, same=w.events.get(ev.tag) is ev)
        how = 'return'
        own_cancel = False
        try:
            for oi, op in enumerate(prog):
                k = op[0]
                if k == 'disp':
                    do_dispatch(ev, me, op, [])
                elif k == 'hredisp':
                    do_hredisp(ev, me, op)
                elif k == 'fwdreplica':
                    do_fwdreplica(ev, me, op)
                elif k == 'raise':
                    if op[1] == 'chain':
                        try:
                            raise KeyError(f'inner {list(me)}')
                        except KeyError as inner:
                            ex = ValueError(f'boom (chained) {list(me)}')
                            w.raised[me] = ex
                            raise ex from inner
                    if op[1] == 'CE':
                        # a sync handler asks a cancelled future for its result: CancelledError comes out of the handler although
                        # nobody cancelled anything that belongs to the bus
                        fut = loop.create_future()
                        fut.cancel()
                        own_cancel = True
                        fut.result()
                    ex = RAISE[op[1]](list(me))
                    w.raised[me] = ex
                    raise ex
                elif k == 'readbus':
                    try:
                        b = ev.event_bus
                        w.rec('readbus', by=list(me), got=getattr(b, 'name', repr(b)), same=any(b is x for x in w.buses))
                    except Exception as ex:  # noqa
                        w.rec('readbus', by=list(me), got=None, exc=type(ex).__name__)
                w.rec('mark', bus=bus, ev=ev.tag, h=hi, op=oi)
            return retval(me)
        except BaseException:
            how = 'raise-cancelled' if own_cancel else 'raise'
            raise
        finally:
            w.running.pop(me, None)
            w.rec('exit', bus=bus, ev=ev.tag, h=hi, how=how)

    is_async = kind in ('async', 'amethod', 'acmethod', 'abusmeth', 'aretry')
    if kind == 'aretry':
        # an async handler wrapped in the library's own @retry decorator (README: "Retry decorator ... for handlers")
        from bubus.helpers import retry

        rspec = hspec.get('retry') or {}

        @retry(wait=rspec.get('wait', 0.05), retries=rspec.get('retries', 2), timeout=rspec.get('timeout', 3600.0))
        async def rfn(event):
            return await run_async(event)

        rfn.__name__ = hname
        rfn.__qualname__ = hname
        return rfn
    if kind in ('busmeth', 'abusmeth'):
        # a bound method of an EventBus instance that is NOT dispatch (applications subclass the bus and register its own methods)
        import types

        if kind == 'abusmeth':

            async def bm(self_bus, event):
                return await run_async(event)
        else:

            def bm(self_bus, event):
                return run_sync(event)

        bm.__name__ = hname
        bm.__qualname__ = hname
        owner = w.buses[hspec.get('owner', hspec['bus']) % len(w.buses)]
        return types.MethodType(bm, owner)
    if kind in ('async', 'sync', 'smethod'):
        if is_async:

            async def fn(event):
                return await run_async(event)
        else:

            def fn(event):
                return run_sync(event)

        fn.__name__ = hname
        fn.__qualname__ = hname
        if kind == 'smethod':
            cls = type(f'HS{hi}', (), {hname: staticmethod(fn)})
            w.keep.append(cls)
            return getattr(cls, hname)
        return fn
    if kind in ('method', 'amethod'):
        if is_async:

            async def m(self, event):
                return await run_async(event)
        else:

            def m(self, event):
                return run_sync(event)

        m.__name__ = hname
        m.__qualname__ = f'HM{hi}.{hname}'
        cls = type(f'HM{hi}', (), {hname: m})
        inst = cls()
        w.keep.append(inst)
        return getattr(inst, hname)
    if kind in ('cmethod', 'acmethod'):
        if is_async:

            async def c(cls_, event):
                return await run_async(event)
        else:

            def c(cls_, event):
                return run_sync(event)

        c.__name__ = hname
        c.__qualname__ = f'HC{hi}.{hname}'
        cls = type(f'HC{hi}', (), {hname: classmethod(c)})
        w.keep.append(cls)
        return getattr(cls, hname)
    raise HarnessError(f'unknown handler kind {kind}')


def pattern_of(pat):
    if pat == '*':
        return '*'
    if isinstance(pat, str) and pat.startswith('s'):
        return ET[int(pat[1:])].__name__
    return ET[int(pat)]


def pattern_matches(pat, typ: int) -> bool:
    if pat == '*':
        return True
    if isinstance(pat, str) and pat.startswith('s'):
        return int(pat[1:]) == typ
    return int(pat) == typ


# ---------------------------------------------------------------------------
# actors


async def run_actor(w: World, ai: int, ops: list):
    loop = w.loop
    st = w.actor_state[ai] = {'op': None, 'blocked': None}
    who = f'A{ai}'
    for oi, op in enumerate(ops):
        st['op'] = oi
        k = op[0]
        if k == 'sleep':
            await asyncio.sleep(op[1])
        elif k == 'yield':
            for _ in range(op[1]):
                await asyncio.sleep(0)
        elif k in ('disp', 'burst'):
            n = 1 if k == 'disp' else op[3]
            flags = (op[3] if k == 'disp' and len(op) > 3 else (op[4] if k == 'burst' and len(op) > 4 else None)) or {}
            for _ in range(n):
                if w.ndisp >= w.cap:
                    w.rec('disp-skip', by=who)
                    continue
                w.ndisp += 1
                tag, e = w.new_event(int(op[2]), 0, flags)
                w.parent[tag] = ('A', ai)
                rec = w.rec('disp', by=who, ev=tag, bus=bus_name(w.sc, op[1]), xp=flags.get('xp'))
                try:
                    got = w.buses[op[1]].dispatch(e)
                    rec['ok'] = True
                    rec['same'] = got is e
                    w.roots.append(tag)
                except Exception as ex:  # noqa
                    rec['ok'] = False
                    rec['exc'] = type(ex).__name__
                    w.rec('disp-rej', by=who, ev=tag, exc=type(ex).__name__)
                    continue
                also = flags.get('also')
                if also is not None and also % len(w.buses) != op[1]:
                    # the same object is handed directly to a second bus in the same breath (no forwarding handler involved)
                    b2 = also % len(w.buses)
                    rec2 = w.rec('redisp', by=who, ev=tag, bus=bus_name(w.sc, b2), was_complete=w.is_complete(e), status=e.event_status, also=True)
                    try:
                        w.buses[b2].dispatch(e)
                        rec2['ok'] = True
                    except Exception as ex:  # noqa
                        rec2['ok'] = False
                        rec2['exc'] = type(ex).__name__
        elif k == 'replay':
            # ['replay', root, bus]: ordinary code rebuilds a COMPLETED event from its dump (same event_id, same event_path; as when a
            # WAL line is replayed) and dispatches the rebuilt object: for the bus it is a new object to be delivered to every handler
            done = [t for t in w.roots if w.is_complete(w.events[t]) and t not in w.replica_of]
            if not done or w.ndisp >= w.cap:
                continue
            w.ndisp += 1
            src = w.events[done[op[1] % len(done)]]
            tag = w.next_tag
            w.next_tag += 1
            e = type(src).model_validate({**src.model_dump(), 'tag': tag})
            w.events[tag] = e
            w.replica_of[tag] = src.tag
            w.parent[tag] = ('A', ai)
            rec = w.rec('disp', by=who, ev=tag, bus=bus_name(w.sc, op[2]), xp=None, replay_of=src.tag, path=list(e.event_path))
            try:
                got = w.buses[op[2]].dispatch(e)
                rec['ok'] = True
                rec['same'] = got is e
                w.roots.append(tag)
            except Exception as ex:  # noqa
                rec['ok'] = False
                rec['exc'] = type(ex).__name__
                w.rec('disp-rej', by=who, ev=tag, exc=type(ex).__name__)
        elif k == 'redisp':
            if not w.roots:
                continue
            tag = w.roots[op[1] % len(w.roots)]
            e = w.events[tag]
            rec = w.rec('redisp', by=who, ev=tag, bus=bus_name(w.sc, op[2]), was_complete=w.is_complete(e), status=e.event_status)
            try:
                w.buses[op[2]].dispatch(e)
                rec['ok'] = True
            except Exception as ex:  # noqa
                rec['ok'] = False
                rec['exc'] = type(ex).__name__
        elif k in ('await', 'awaitdesc'):
            if not w.roots:
                continue
            tag = w.roots[op[1] % len(w.roots)]
            if k == 'awaitdesc':
                ds = [d for d in w.descendants(tag) if d in w._accepted]
                if ds:
                    tag = ds[op[2] % len(ds)]
            e = w.events[tag]
            w.rec('a-await-begin', actor=ai, ev=tag, already=w.is_complete(e))
            st['blocked'] = ('await', tag)
            exc = None
            got = None
            try:
                got = await e
            except asyncio.CancelledError:
                raise
            except BaseException as ex:  # noqa
                exc = type(ex).__name__
            st['blocked'] = None
            w.rec('a-await-end', actor=ai, ev=tag, same=got is e, exc=exc, complete=w.is_complete(e), inc=w.incomplete_descendants(tag), statuses=[r.status for r in e.event_results.values()])
            if w.watch and w.is_complete(e):
                w.mark_observed_complete(tag, 'actor-await')
        elif k == 'status':
            if not w.roots:
                continue
            tag = w.roots[op[1] % len(w.roots)]
            e = w.events[tag]
            c = w.is_complete(e)
            w.rec('a-status', actor=ai, ev=tag, status=e.event_status, complete=c)
            if w.watch and c:
                w.mark_observed_complete(tag, 'status-read')
        elif k == 'idle':
            bus = w.buses[op[1]]
            before = w.bus_busy(op[1])
            w.rec('a-idle-begin', actor=ai, bus=bus.name, timeout=op[2], busy=before)
            st['blocked'] = ('idle', bus.name)
            exc = None
            try:
                await bus.wait_until_idle(timeout=op[2]) if op[2] is not None else await bus.wait_until_idle()
            except asyncio.CancelledError:
                raise
            except BaseException as ex:  # noqa
                exc = type(ex).__name__
            st['blocked'] = None
            w.rec('a-idle-end', actor=ai, bus=bus.name, timeout=op[2], exc=exc, pending=w.bus_unfinished(op[1]))
        elif k == 'expect':
            # ['expect', bus, type, timeout]: ordinary code waits for the next event of a type; the temporary subscription it makes may be
            # added and removed while events of that type are in flight
            bus = w.buses[op[1]]
            w.rec('a-expect-begin', actor=ai, bus=bus.name, typ=int(op[2]), timeout=op[3])
            st['blocked'] = ('expect', bus.name)
            got = None
            try:
                got = await bus.expect(ET[int(op[2])], timeout=op[3])
                outc = 'got'
            except asyncio.CancelledError:
                raise
            except TimeoutError:
                outc = 'timeout'
            except BaseException as ex:  # noqa
                outc = type(ex).__name__
            st['blocked'] = None
            w.rec('a-expect-end', actor=ai, bus=bus.name, out=outc, ev=getattr(got, 'tag', None))
        elif k == 'stop':
            bus = w.buses[op[1]]
            w.rec('a-stop-begin', actor=ai, bus=bus.name, timeout=op[2], clear=op[3], started=w.bus_started(op[1]), busy=w.bus_busy(op[1]), iters=loop.iterations)
            st['blocked'] = ('stop', bus.name)
            exc = None
            try:
                await bus.stop(timeout=op[2], clear=op[3])
            except asyncio.CancelledError:
                raise
            except BaseException as ex:  # noqa
                exc = type(ex).__name__
            st['blocked'] = None
            w.rec('a-stop-end', actor=ai, bus=bus.name, exc=exc, iters=loop.iterations)
        elif k == 'acc':
            if not w.roots:
                continue
            tag = w.roots[op[1] % len(w.roots)]
            e = w.events[tag]
            name, ria, rin = op[2], op[3], op[4]
            st['blocked'] = ('acc', tag)
            try:
                val = await getattr(e, name)(raise_if_any=ria, raise_if_none=rin)
                out = {'out': 'ok', 'val': short(val)}
            except asyncio.CancelledError:
                raise
            except BaseException as ex:  # noqa
                out = {'out': 'raise', 'exc': type(ex).__name__, 'errkey': w._raised_key(ex)}
            st['blocked'] = None
            w.rec('a-acc', actor=ai, ev=tag, name=name, ria=ria, rin=rin, rows=w.result_rows(e), **out)
    st['op'] = 'done'


def _bus_helpers(cls):
    def bus_unfinished(self, bi):
        """harness view: (event tag) accepted on bus bi whose handlers on that bus have not all exited / not yet entered"""
        name = bus_name(self.sc, bi)
        acc = [r['ev'] for r in self.trace if r['k'] == 'enq-ok' and r['bus'] == name]
        out = []
        for tag in dict.fromkeys(acc):
            exp = self.expected_handlers(bi, tag)
            ent = {r['h'] for r in self.trace if r['k'] == 'enter' and r['bus'] == name and r['ev'] == tag}
            ex = {r['h'] for r in self.trace if r['k'] == 'exit' and r['bus'] == name and r['ev'] == tag}
            if any(m[0] == name and m[1] == tag for m in self.running) or not exp <= ent or not ent <= ex:
                out.append(tag)
        return out

    def bus_busy(self, bi):
        return bool(self.bus_unfinished(bi))

    def bus_started(self, bi):
        name = bus_name(self.sc, bi)
        return any(r['k'] == 'enq-ok' and r['bus'] == name for r in self.trace)

    def expected_handlers(self, bi, tag):
        typ = ET.index(type(self.events[tag])) if type(self.events[tag]) in ET else None
        out = set()
        if typ is None:
            return out
        for hi, h in enumerate(self.sc['handlers']):
            if (h['bus'] == bi or h.get('bus2') == bi) and pattern_matches(h['pat'], typ):
                out.add(hi)
        return out

    cls.bus_unfinished = bus_unfinished
    cls.bus_busy = bus_busy
    cls.bus_started = bus_started
    cls.expected_handlers = expected_handlers
    return cls


World = _bus_helpers(World)


# ---------------------------------------------------------------------------
# running a scenario


def stall_limit(sc) -> float:
    """Upper bound on the time between two trace records in a live run: every generated wait is
    bounded by the largest generated duration / timeout; +1.0 s slack (> poll periods, grace periods)."""
    m = 0.0

    def scan(x):
        nonlocal m
        if isinstance(x, (int, float)) and not isinstance(x, bool):
            if x != float('inf'):
                m = max(m, float(x))
        elif isinstance(x, list):
            for y in x:
                scan(y)
        elif isinstance(x, dict):
            for y in x.values():
                scan(y)

    for h in sc.get('handlers', []):
        scan(h.get('cleanup'))
        for op in h.get('prog', []):
            if op[0] == 'sleep':
                scan(op[1])
            elif op[0] == 'disp' and len(op) > 4 and op[4]:
                scan(op[4].get('to'))
    for a in sc.get('actors', []):
        for op in a:
            if op[0] == 'sleep':
                scan(op[1])
            elif op[0] in ('idle', 'stop'):
                scan(op[2])
            elif op[0] == 'expect':
                scan(op[3])
            elif op[0] in ('disp', 'burst'):
                fl = op[3] if op[0] == 'disp' and len(op) > 3 else (op[4] if op[0] == 'burst' and len(op) > 4 else None)
                if fl:
                    scan(fl.get('to'))
    scan(list((sc.get('timeouts') or {}).values()))
    scan((sc.get('wal') or {}).get('lat'))
    scan((sc.get('inject') or {}).get('timeout'))
    return 2.0 * m + 2.0


_LOCK_DIRTY = True  # (first scenario of a process: start from a clean slate)
_PRIMED = False

_PRIMER = {'buses': [{'par': False, 'hist': None, 'rank': 1}, {'par': False, 'hist': None, 'rank': 2}], 'fwd': [],
           'handlers': [{'bus': 0, 'pat': 0, 'kind': 'async', 'prog': [['sleep', 0.05]], 'ret': 'idx'}, {'bus': 1, 'pat': 0, 'kind': 'async', 'prog': [['sleep', 0.05]], 'ret': 'idx'}],
           'actors': [[['disp', 0, 0], ['disp', 1, 0], ['await', 0]]], 'maxdepth': 1, 'cap': 10, 'warm': False}


def run_scenario(sc: dict, *, keep_world: bool = False, spin_budget: int = 60_000) -> dict:
    """Returns a plain-data result: trace, final snapshots, hang info, iteration counts."""
    global _PRIMED
    if not _PRIMED:
        # the process has used the library in an earlier event loop before the first judged scenario (also when a single replay
        # file is run in a fresh process): per-loop state the library keeps must survive a change of loop
        _PRIMED = True
        run_scenario(dict(_PRIMER))
    realtime = bool(os.environ.get('BVT_REALTIME'))
    loop = asyncio.new_event_loop() if realtime else VLoop(spin_budget=spin_budget)
    asyncio.set_event_loop(loop)
    w = World(sc, loop)
    out: dict[str, Any] = {'hang': None}
    limit = stall_limit(sc)
    import bubus.service as svc

    # Every scenario runs in an event loop of its own, one after the other in one process - like a program that calls asyncio.run()
    # several times. The library's process-wide lock object therefore lives on from scenario to scenario (it has to notice the new
    # loop by itself); it is only thrown away after a scenario that ended in a hang, where it may have been left acquired.
    global _LOCK_DIRTY
    if _LOCK_DIRTY and hasattr(svc, '_global_eventbus_lock'):
        svc._global_eventbus_lock = None
    _LOCK_DIRTY = False
    wal_ctx = None
    if sc.get('wal'):
        from bvt import walshim

        wal_ctx = walshim.install(w, sc['wal'])

    async def main():
        for i, b in enumerate(sc['buses']):
            kw = {}
            if wal_ctx is not None and b.get('wal'):
                kw['wal_path'] = wal_ctx.path_for(i)
            bus_cls = BUS_CLASSES[int(b.get('cls', 0)) % len(BUS_CLASSES)]
            bus = bus_cls.__new__(bus_cls)  # rank is needed by __hash__ during __init__ (WeakSet add)
            bus._bvt_rank = int(b.get('rank', i + 1))
            bus._bvt_world = w
            bus.__init__(name=bus_name(sc, i), parallel_handlers=bool(b.get('par')), max_history_size=b.get('hist'), **kw)
            w.buses.append(bus)
        for i in sc.get('shadow') or []:
            # application code asks for a second bus with a name that is already taken (before the first one has dispatched anything):
            # the library renames the newcomer with a warning; the existing bus must keep working in every respect
            import warnings

            with warnings.catch_warnings():
                warnings.simplefilter('ignore')
                w.keep.append(EventBus(name=bus_name(sc, i % len(w.buses))))
        for src, dst, pat in sc.get('fwd', []):
            w.buses[src].on(pattern_of(pat), w.buses[dst].dispatch)
        for hi, h in enumerate(sc['handlers']):
            fn = make_handler(w, hi, h)
            w.buses[h['bus']].on(pattern_of(h['pat']), fn)
            if h.get('bus2') is not None and h['bus2'] != h['bus']:
                w.buses[h['bus2']].on(pattern_of(h['pat']), fn)
        out['base_handlers'] = {b.name: sum(len(v) for v in b.handlers.values()) for b in w.buses}
        if sc.get('warm'):
            for b in w.buses:
                EventBus.dispatch(b, WarmUp())
            await asyncio.sleep(POLL_SILENCE)
        out['iter0'] = getattr(loop, 'iterations', 0)
        inj = sc.get('inject')
        out['_main_task'] = asyncio.current_task()
        if inj:
            from bvt import inject

            inject.arm(w, inj, out)
        actors = [asyncio.ensure_future(run_actor(w, ai, ops)) for ai, ops in enumerate(sc.get('actors', []))]
        out['_actor_tasks'] = actors
        # harness-owned quiescence / hang detection (progress based)
        silent = 0.0
        last = len(w.trace)
        step = 0.1875
        while True:
            await asyncio.sleep(step)
            n = len(w.trace)
            if n != last:
                last = n
                silent = 0.0
                continue
            silent += step
            actors_done = all(a.done() for a in actors)
            inj_done = all(t.done() for t in w.keep if isinstance(t, asyncio.Task))
            if actors_done and inj_done and not w.running and silent >= POLL_SILENCE:
                break
            if silent > limit:
                out['hang'] = {
                    'kind': 'stalled',
                    'actors': {str(ai): {'op': s['op'], 'blocked': s['blocked']} for ai, s in w.actor_state.items() if s['op'] != 'done'},
                    'handlers': [list(m) + [s.get('awaiting')] for m, s in w.running.items()],
                    'silent_for': silent,
                }
                w.rec('hang', **out['hang'])
                break
        for a in actors:
            if a.done() and not a.cancelled() and a.exception() is not None:
                raise HarnessError(f'actor failed: {a.exception()!r}')
        w.finished = True
        w.rec('quiet')
        if wal_ctx is not None:
            wal_ctx.finish()
        out['final'] = {tag: w.snap(tag) for tag in w.events}
        out['history'] = {b.name: [getattr(e, 'tag', None) for e in b.event_history.values()] for b in w.buses}
        out['end_handlers'] = {b.name: sum(len(v) for v in b.handlers.values()) for b in w.buses}
        out['tasks_alive'] = sorted(t.get_name()[:60] for t in asyncio.all_tasks() if not t.done() and t is not asyncio.current_task())

    try:
        try:
            loop.run_until_complete(main())
        except Hang as e:
            out['hang'] = {'kind': e.kind, 'detail': str(e), 'handlers': [list(m) + [s.get('awaiting')] for m, s in w.running.items()], 'actors': {str(ai): {'op': s['op'], 'blocked': s['blocked']} for ai, s in w.actor_state.items() if s['op'] != 'done'}}
            w.rec('hang', **out['hang'])
            try:
                out['final'] = {tag: _safe_snap(w, tag) for tag in w.events}
            except Exception:  # noqa
                out['final'] = {}
        out['vt'] = loop.time()
        out['iters'] = getattr(loop, 'iterations', 0)
    finally:
        _teardown(loop, w, wal_ctx)
    if w.watch and not out.get('hang') and not realtime:
        # the program goes on in a LATER event loop (asyncio.run() a second time) and looks at events it saw complete in the first one
        out['second_loop'] = _second_loop_look(w)
    out.pop('_actor_tasks', None)
    out.pop('_main_task', None)
    out['trace'] = w.trace
    out['stability'] = w.stability
    out['roots'] = list(w.roots)
    out['parent'] = {t: (list(p) if isinstance(p, tuple) else p) for t, p in w.parent.items()}
    out['children'] = {t: list(c) for t, c in w.children.items()}
    out['ndisp'] = w.ndisp
    out['payload_of'] = dict(w.payload_of)
    out['replica_of'] = dict(w.replica_of)
    out['hist'] = {'viol': list(w.hist_viol), 'evictions': w.hist_evictions, 'evicted_inflight': w.hist_evicted_inflight}
    out['observed_complete'] = {t: {'at': v['at'], 'how': v['how']} for t, v in w.observed_complete.items()}
    if wal_ctx is not None:
        out['wal'] = wal_ctx.result
    if keep_world:
        out['world'] = w
    if out.get('hang') or sc.get('inject') or sc.get('stops'):
        globals()['_LOCK_DIRTY'] = True  # torn down mid-flight: the lock may have been left acquired
    return out


def _second_loop_look(w, limit=4):
    res = []
    tags = [t for t in sorted(w.observed_complete) if t >= 0][:limit]
    if not tags:
        return res
    loop2 = VLoop(spin_budget=20_000)
    asyncio.set_event_loop(loop2)
    try:

        async def look():
            for t in tags:
                e = w.events[t]
                r = {'ev': t, 'status': e.event_status}
                try:
                    sig = e.event_completed_signal
                    r['sig'] = bool(sig is not None and sig.is_set())
                    got = await asyncio.wait_for(_await_event(e), 1.0)
                    r['await'] = 'returned' if got is e else 'other-object'
                except asyncio.TimeoutError:
                    r['await'] = 'never-returned'
                except BaseException as ex:  # noqa
                    r['await'] = type(ex).__name__
                res.append(r)

        try:
            loop2.run_until_complete(look())
        except Hang as e:
            res.append({'ev': None, 'await': f'hang: {e}'})
    finally:
        try:
            for t_ in asyncio.all_tasks(loop2):
                t_.cancel()
            loop2.run_until_complete(asyncio.sleep(0))
        except BaseException:  # noqa
            pass
        loop2.close()
        asyncio.set_event_loop(None)
    return res


async def _await_event(e):
    return await e


def _safe_snap(w, tag):
    e = w.events[tag]
    sig = e._event_completed_signal
    return {
        'status': e.event_status,
        'sig': bool(sig is not None and sig.is_set()),
        'parent': e.event_parent_id,
        'id': e.event_id,
        'path': list(e.event_path),
        'type': type(e).__name__,
        'depth': e.depth,
        'results': w.result_rows(e),
    }


def _teardown(loop, w, wal_ctx):
    try:
        if hasattr(loop, '_hooks'):
            loop._hooks.clear()
        if hasattr(loop, 'spin_budget'):
            loop.spin_budget = 10**9
            loop._spin_count = 0

        async def td():
            for b in w.buses:
                try:
                    await asyncio.wait_for(b.stop(clear=True), 5)
                except BaseException:  # noqa
                    pass

        for t in asyncio.all_tasks(loop):
            t.cancel()
        try:
            loop.run_until_complete(asyncio.sleep(0))
        except BaseException:  # noqa
            pass
        try:
            loop.run_until_complete(td())
        except BaseException:  # noqa
            pass
        for _ in range(3):
            pend = [t for t in asyncio.all_tasks(loop) if not t.done()]
            if not pend:
                break
            for t in pend:
                t.cancel()
                if hasattr(t, '_log_destroy_pending'):
                    t._log_destroy_pending = False
            try:
                loop.run_until_complete(asyncio.sleep(0))
            except BaseException:  # noqa
                pass
    finally:
        if wal_ctx is not None:
            wal_ctx.uninstall()
        try:
            loop.close()
        except BaseException:  # noqa
            pass
        asyncio.set_event_loop(None)
        EventBus.all_instances.clear()
        w.keep.clear()


def fmt_trace(out, limit=400):
    lines = []
    for r in out['trace'][:limit]:
        rest = {k: v for k, v in r.items() if k not in ('k', 'i', 't')}
        lines.append(f'{r["i"]:4d} t={r["t"]:<8g} {r["k"]:<14} {rest}')
    return lines
