"""Check runner: ./check <ID> [--tier quick|thorough] [--replay FILE] [--realtime]

exit 0 = property held on everything explored (open known findings aside)
exit 1 = VIOLATION property=<ID> replay=<path>
exit 2 = harness / environment error (never a violation)
"""
from __future__ import annotations

import argparse
import collections
import hashlib
import importlib
import json
import multiprocessing
import os
import sys
import time
import traceback

VERIF_DIR = os.path.dirname(os.path.dirname(os.path.abspath(__file__)))
REPO = os.path.abspath(os.environ.get('VERIF_REPO', '/repo'))
NSHARDS = int(os.environ.get('VERIF_SHARDS', '16'))

PROPS = [f'C{i:02d}' for i in range(1, 21)]


def _setup_imports():
    """Import bubus from the tree under test (current working tree of REPO)."""
    os.environ.setdefault('BUBUS_LOGGING_LEVEL', 'CRITICAL')
    if REPO not in sys.path:
        sys.path.insert(0, REPO)
    import warnings

    warnings.simplefilter('ignore')
    import bubus  # noqa

    here = os.path.abspath(bubus.__file__)
    if not here.startswith(REPO + os.sep):
        print(f'HARNESS-ERROR bubus imported from {here}, expected under {REPO}')
        sys.exit(2)
    import logging

    logging.getLogger('bubus').setLevel(logging.CRITICAL + 1)
    logging.getLogger('bubus.helpers').setLevel(logging.CRITICAL + 1)
    logging.getLogger('asyncio').setLevel(logging.CRITICAL + 1)
    # wall-clock side effect of the retry decorator (psutil.cpu_percent(interval=0.1) every 5 s): not under test
    try:
        import bubus.helpers as _h

        _h._last_overload_check = 1e18
    except Exception:  # noqa
        pass


def load_prop(pid: str):
    return importlib.import_module(f'bvt.props.{pid.lower()}')


def canon(case) -> str:
    return json.dumps(case, sort_keys=True, separators=(',', ':'), default=str)


def case_hash(case) -> str:
    return hashlib.sha1(canon(case).encode()).hexdigest()[:16]


def norm(case):
    return json.loads(json.dumps(case))


# ---------------------------------------------------------------------------
# known findings


def load_known_findings():
    """known_findings.txt lines:
    open:  property=C06 id=F14 sig=<classifier> :: text
    fixed: property=C09 <commit> id=F8 :: text
    Only 'open' entries suppress anything."""
    path = os.path.join(VERIF_DIR, 'known_findings.txt')
    out = []
    if not os.path.exists(path):
        return out
    for line in open(path, encoding='utf-8'):
        line = line.strip()
        if not line or line.startswith('#'):
            continue
        head, _, text = line.partition('::')
        parts = head.split()
        kind = parts[0].rstrip(':')
        kv = dict(p.split('=', 1) for p in parts[1:] if '=' in p)
        out.append({'kind': kind, 'property': kv.get('property'), 'id': kv.get('id'), 'sig': kv.get('sig'), 'text': text.strip()})
    return out


def open_sigs(pid):
    return {k['sig']: k for k in load_known_findings() if k['kind'] == 'open' and k['property'] == pid and k['sig']}


# ---------------------------------------------------------------------------
# evaluating one case


def evaluate(mod, case, sigs):
    """Run one case. Returns (out, novel, known) where novel/known are lists of violations
    (clause, detail[, sig])."""
    out = mod.run_case(case)
    novel, known = [], []
    classify = getattr(mod, 'classify', None)
    for v in out.get('viol', []):
        sig = None
        if classify is not None and sigs:
            try:
                sig = classify(case, out, v)
            except Exception:  # a broken classifier must never hide a violation
                sig = None
        if sig is not None and sig in sigs:
            known.append((v[0], v[1], sig))
        else:
            novel.append((v[0], v[1]))
    return out, novel, known


# ---------------------------------------------------------------------------
# worker (one shard = one independent Hypothesis campaign)


def _worker(args):
    pid, tier, seed, shard, nshards, deadline = args
    try:
        return _worker_inner(pid, tier, seed, shard, nshards, deadline)
    except BaseException as e:  # noqa
        return {'shard': shard, 'harness_error': f'{type(e).__name__}: {e}\n{traceback.format_exc()}'}


def _worker_inner(pid, tier, seed, shard, nshards, deadline):
    from hypothesis import HealthCheck, Phase, Verbosity, given, settings
    from hypothesis import seed as hseed

    mod = load_prop(pid)
    sigs = open_sigs(pid)
    budget = mod.budget(tier)
    n_examples = max(1, budget['examples'] // nshards)
    shrink_budget_s = budget.get('shrink_s', 60.0)
    st = {
        'shard': shard,
        'evaluations': 0,
        'nontrivial': set(),
        'classes': collections.Counter(),
        'samples': [],
        'known_hits': collections.Counter(),
        'excluded_by_known': 0,
        'violation': None,
        'harness_error': None,
        'budget_exhausted': False,
        'hangs': 0,
    }
    focus = {'clause': None, 'best': None, 'best_hash': None, 'shrink_deadline': None, 'shrink_runs': 0}

    def run_one(case):
        case = norm(case)
        out, novel, known = evaluate(mod, case, sigs)
        if out.get('harness_error'):
            raise RuntimeError('harness: ' + str(out['harness_error']))
        return case, out, novel, known

    def account(case, out, known):
        st['evaluations'] += 1
        for c in out.get('classes', []):
            st['classes'][c] += 1
        if out.get('hang'):
            st['hangs'] += 1
        if out.get('nontrivial'):
            h = case_hash(case)
            if h not in st['nontrivial']:
                st['nontrivial'].add(h)
                if len(st['samples']) < 2:
                    st['samples'].append(case)
        if known:
            st['excluded_by_known'] += 1
            for sig in {k[2] for k in known}:
                st['known_hits'][sig] += 1

    def body(case):
        if st['harness_error']:
            return
        shrinking = focus['clause'] is not None
        if not shrinking and time.time() > deadline:
            st['budget_exhausted'] = True
            return
        if shrinking and time.time() > focus['shrink_deadline']:
            # shrink budget used up: let Hypothesis finish quickly; only the best known case still fails
            if case_hash(norm(case)) != focus['best_hash']:
                return
        try:
            case, out, novel, known = run_one(case)
        except Exception as e:  # noqa
            st['harness_error'] = f'{type(e).__name__}: {e}\n{traceback.format_exc()}\ncase={canon(case)[:4000]}'
            return
        if not shrinking:
            account(case, out, known)
        else:
            focus['shrink_runs'] += 1
        if novel:
            if focus['clause'] is None:
                focus['clause'] = novel[0][0]
                focus['shrink_deadline'] = time.time() + shrink_budget_s
                st['violation'] = {'clause': novel[0][0], 'detail': novel[0][1], 'first_case': case}
            mine = [v for v in novel if v[0] == focus['clause']]
            if mine:
                focus['best'] = case
                focus['best_hash'] = case_hash(case)
                st['violation']['detail'] = mine[0][1]
                raise AssertionError(focus['clause'])

    # replay-independent extra enumeration (finite sub-spaces), sharded round-robin
    extra = getattr(mod, 'enumerate_cases', None)
    phases = [Phase.generate, Phase.shrink] if budget.get('shrink', True) else [Phase.generate]
    hs = int(hashlib.sha1(f'{pid}/{seed}/{shard}'.encode()).hexdigest()[:12], 16)

    @hseed(hs)
    @settings(
        max_examples=n_examples,
        deadline=None,
        database=None,
        derandomize=False,
        report_multiple_bugs=False,
        suppress_health_check=list(HealthCheck),
        phases=phases,
        verbosity=Verbosity.quiet,
    )
    @given(mod.strategy(tier))
    def t(case):
        body(case)

    try:
        t()
    except AssertionError:
        pass
    except BaseException as e:  # noqa
        if st['violation'] is None:
            st['harness_error'] = st['harness_error'] or f'{type(e).__name__}: {e}\n{traceback.format_exc()}'

    if extra is not None and st['violation'] is None and not st['harness_error']:
        n_enum = 0
        for i, case in enumerate(extra(tier, seed)):
            if i % nshards != shard:
                continue
            if time.time() > deadline:
                st['budget_exhausted'] = True
                st['enum_incomplete'] = True
                break
            try:
                case, out, novel, known = run_one(case)
            except Exception as e:  # noqa
                st['harness_error'] = f'{type(e).__name__}: {e}\n{traceback.format_exc()}\ncase={canon(case)[:4000]}'
                break
            account(case, out, known)
            n_enum += 1
            if novel:
                st['violation'] = {'clause': novel[0][0], 'detail': novel[0][1], 'first_case': case}
                focus['best'] = case
                break
        st['enumerated'] = n_enum

    if st['violation'] is not None:
        st['violation']['case'] = focus['best'] or st['violation']['first_case']
        st['violation']['shrink_runs'] = focus['shrink_runs']
    st['nontrivial'] = sorted(st['nontrivial'])
    st['classes'] = dict(st['classes'])
    st['known_hits'] = dict(st['known_hits'])
    return st


# ---------------------------------------------------------------------------
# replay


def write_replay(pid, viol, seed, tier):
    d = os.path.join(VERIF_DIR, 'replays', 'out')
    os.makedirs(d, exist_ok=True)
    payload = {'property': pid, 'clause': viol['clause'], 'detail': viol['detail'], 'seed': seed, 'tier': tier, 'case': viol['case']}
    h = case_hash(viol['case'])
    path = os.path.join(d, f'{pid}-{viol["clause"].replace("/", "_")}-{h}.json')
    with open(path, 'w', encoding='utf-8') as f:
        json.dump(payload, f, indent=1, sort_keys=True)
    return path


def run_replay(pid, path, realtime=False, verbose=True):
    mod = load_prop(pid)
    payload = json.load(open(path, encoding='utf-8'))
    case = payload['case'] if isinstance(payload, dict) and 'case' in payload else payload
    sigs = open_sigs(pid)
    if realtime:
        os.environ['BVT_REALTIME'] = '1'
    out, novel, known = evaluate(mod, norm(case), sigs)
    if verbose:
        for line in out.get('log', [])[:400]:
            print('   ', line)
    return out, novel, known


def regress_dir(pid):
    return os.path.join(VERIF_DIR, 'replays', 'regress', pid)


def run_regress(pid):
    """Replay tier: committed reproducers. expect: 'pass' (must be quiet) or 'known:<sig>'."""
    d = regress_dir(pid)
    res = {'ran': 0, 'violations': [], 'known': collections.Counter(), 'errors': []}
    if not os.path.isdir(d):
        return res
    mod = load_prop(pid)
    sigs = open_sigs(pid)
    for fn in sorted(os.listdir(d)):
        if not fn.endswith('.json'):
            continue
        path = os.path.join(d, fn)
        try:
            payload = json.load(open(path, encoding='utf-8'))
            out, novel, known = evaluate(mod, norm(payload['case']), sigs)
            if out.get('harness_error'):
                res['errors'].append(f'{fn}: {out["harness_error"]}')
                continue
        except Exception as e:  # noqa
            res['errors'].append(f'{fn}: {type(e).__name__}: {e}\n{traceback.format_exc()}')
            continue
        res['ran'] += 1
        for k in known:
            res['known'][k[2]] += 1
        if novel:
            res['violations'].append({'clause': novel[0][0], 'detail': novel[0][1], 'case': payload['case'], 'path': path})
    return res


# ---------------------------------------------------------------------------
# main


def main(argv=None):
    ap = argparse.ArgumentParser()
    ap.add_argument('prop')
    ap.add_argument('--tier', default=os.environ.get('VERIF_TIER', 'quick'), choices=['quick', 'thorough'])
    ap.add_argument('--replay')
    ap.add_argument('--realtime', action='store_true')
    ap.add_argument('--shards', type=int, default=NSHARDS)
    ap.add_argument('--no-evidence', action='store_true')
    a = ap.parse_args(argv)
    pid = a.prop.upper()
    if pid not in PROPS:
        print(f'HARNESS-ERROR unknown property {pid}')
        return 2
    try:
        seed = int(os.environ.get('VERIF_SEED', '1'))
    except ValueError:
        seed = 1
    _setup_imports()
    t0 = time.time()

    if a.replay:
        out, novel, known = run_replay(pid, a.replay, realtime=a.realtime)
        for k in known:
            print(f'KNOWN-FINDING: property={pid} sig={k[2]} clause={k[0]} {k[1]}')
        for v in novel:
            print(f'  clause={v[0]} {v[1]}')
        if out.get('harness_error'):
            print('HARNESS-ERROR', out['harness_error'])
            return 2
        if novel:
            print(f'VIOLATION property={pid} replay={a.replay}')
            return 1
        print(f'OK property={pid} replay={a.replay} held')
        return 0

    mod = load_prop(pid)
    budget = mod.budget(a.tier)
    wall = float(os.environ.get('VERIF_BUDGET_S', budget.get('wall_s', 600 if a.tier == 'quick' else 3600)))
    deadline = t0 + wall
    known_all = open_sigs(pid)

    # 1. replay tier
    reg = run_regress(pid)
    if reg['errors']:
        print('HARNESS-ERROR regress replay failed:\n' + '\n'.join(reg['errors']))
        return 2

    # 2. generated search
    nshards = max(1, a.shards)
    jobs = [(pid, a.tier, seed, i, nshards, deadline) for i in range(nshards)]
    if nshards == 1:
        results = [_worker(jobs[0])]
    else:
        ctx = multiprocessing.get_context('fork')
        with ctx.Pool(nshards) as pool:
            results = list(pool.imap_unordered(_worker, jobs))
    results.sort(key=lambda r: r['shard'])
    errs = [r for r in results if r.get('harness_error')]
    if errs:
        print(f'HARNESS-ERROR property={pid} shard={errs[0]["shard"]}\n{errs[0]["harness_error"]}')
        return 2

    evaluations = sum(r['evaluations'] for r in results)
    nontrivial = set()
    classes = collections.Counter()
    known_hits = collections.Counter(reg['known'])
    excluded = 0
    samples = []
    hangs = 0
    for r in results:
        nontrivial.update(r['nontrivial'])
        classes.update(r['classes'])
        known_hits.update(r['known_hits'])
        excluded += r['excluded_by_known']
        hangs += r.get('hangs', 0)
        for s in r['samples']:
            if len(samples) < 3:
                samples.append(s)
    violations = list(reg['violations'])
    for r in results:
        if r['violation'] is not None:
            violations.append(r['violation'])

    if evaluations == 0:
        print(f'HARNESS-ERROR property={pid}: no case was evaluated (budget exhausted before any case ran)')
        return 2

    # 3. confirm each violation by re-execution, one replay per root-cause bucket (clause id)
    rc = 0
    reported = {}
    sigs = open_sigs(pid)
    for v in violations:
        if v['clause'] in reported:
            continue
        try:
            out, novel, known = evaluate(mod, norm(v['case']), sigs)
        except Exception as e:  # noqa
            print(f'HARNESS-ERROR re-execution raised {type(e).__name__}: {e}')
            return 2
        if not any(n[0] == v['clause'] for n in novel):
            print(f'HARNESS-ERROR flaky: violation {v["clause"]} did not reproduce on re-execution; case={canon(v["case"])[:2000]}')
            return 2
        path = v.get('path') or write_replay(pid, v, seed, a.tier)
        reported[v['clause']] = path
        print(f'  clause={v["clause"]} {v["detail"]}')
        print(f'VIOLATION property={pid} replay={path}')
        rc = 1

    for sig, k in known_all.items():
        print(f'KNOWN-FINDING: property={pid} id={k["id"]} sig={sig} hits={known_hits.get(sig, 0)} {k["text"]}')

    wall_s = round(time.time() - t0, 2)
    if not a.no_evidence:
        ev = {
            'property_id': pid,
            'tier': a.tier,
            'seed': seed,
            'level': getattr(mod, 'LEVEL', 'exploration'),
            'coverage': {
                'evaluations': evaluations,
                'distinct_nontrivial': len(nontrivial),
                'rule': mod.RULE,
                'samples': samples,
                'classes': dict(sorted(classes.items())),
                'known_findings_hit': dict(known_hits),
                'excluded_by_known_finding': excluded,
                'hangs_observed': hangs,
                'shards': nshards,
                'regress_replays_run': reg['ran'],
                'budget_exhausted': any(r.get('budget_exhausted') for r in results),
                'enumerated': sum(r.get('enumerated', 0) for r in results),
                'exhaustive': bool(getattr(mod, 'EXHAUSTIVE', False)) and not any(r.get('enum_incomplete') for r in results),
            },
            'assumptions': list(getattr(mod, 'ASSUMPTIONS', [])),
            'wall_s': wall_s,
            'violations': len(reported),
        }
        os.makedirs(os.path.join(VERIF_DIR, 'evidence'), exist_ok=True)
        with open(os.path.join(VERIF_DIR, 'evidence', f'{pid}.json'), 'w', encoding='utf-8') as f:
            json.dump(ev, f, indent=1, sort_keys=True, default=str)
    top = ', '.join(f'{k}={v}' for k, v in sorted(classes.items())[:40])
    print(f'{"FAIL" if rc else "OK"} property={pid} tier={a.tier} seed={seed} evaluations={evaluations} nontrivial={len(nontrivial)} known_excluded={excluded} wall={wall_s}s')
    print(f'  classes: {top}')
    return rc


if __name__ == '__main__':
    sys.exit(main())
