"""Derived facts over a scenario run (trace indices, lineage, await intervals)."""
from __future__ import annotations

import collections

from bvt.engine import ET, bus_name, pattern_matches

TYPE_IDX = {c.__name__: i for i, c in enumerate(ET)}


class Facts:
    def __init__(self, sc, out):
        self.sc = sc
        self.out = out
        self.tr = out['trace']
        self.final = out.get('final', {})
        self.hang = out.get('hang')
        self.nb = len(sc['buses'])
        self.bidx = {bus_name(sc, i): i for i in range(len(sc['buses']))}
        self.bname = {i: n for n, i in self.bidx.items()}
        self.par = {bus_name(sc, i): bool(b.get('par')) for i, b in enumerate(sc['buses'])}
        self.parent = {int(k): v for k, v in out['parent'].items()}
        self.children = {int(k): v for k, v in out['children'].items()}
        self.enq = collections.OrderedDict()  # (bus, ev) -> [idx...]
        self.enters = collections.defaultdict(list)  # (bus, ev, h) -> [idx]
        self.exits = collections.defaultdict(list)
        self.first_enter = {}  # (bus, ev) -> idx
        self.awaits = collections.defaultdict(list)  # me -> [(begin, end|None, awaited tag)]
        self.etype = {}
        open_aw = {}
        for r in self.tr:
            k = r['k']
            if k == 'enq-ok':
                self.enq.setdefault((r['bus'], r['ev']), []).append(r['i'])
            elif k == 'enter':
                self.enters[(r['bus'], r['ev'], r['h'])].append(r['i'])
                self.first_enter.setdefault((r['bus'], r['ev']), r['i'])
            elif k == 'exit':
                self.exits[(r['bus'], r['ev'], r['h'])].append(r['i'])
                me = (r['bus'], r['ev'], r['h'])
                if me in open_aw:  # handler left while awaiting (cancelled)
                    b, t = open_aw.pop(me)
                    self.awaits[me].append((b, r['i'], t))
            elif k == 'aw-begin':
                open_aw[tuple(r['by'])] = (r['i'], r['ev'])
            elif k == 'aw-end':
                me = tuple(r['by'])
                if me in open_aw:
                    b, t = open_aw.pop(me)
                    self.awaits[me].append((b, r['i'], t))
        for me, (b, t) in open_aw.items():
            self.awaits[me].append((b, None, t))
        for tag, s in self.final.items():
            self.etype[int(tag)] = TYPE_IDX.get(s['type'])
        self.accepted = {ev for (_b, ev) in self.enq}

    # -- lineage
    def is_desc(self, x, anc) -> bool:
        """x == anc or x is a harness-known descendant of anc"""
        seen = 0
        while x is not None and seen < 10000:
            if x == anc:
                return True
            p = self.parent.get(x)
            if p is None or p[0] == 'A':
                return False
            x = p[1]
            seen += 1
        return False

    def descendants(self, tag):
        out, st, seen = [], [tag], {tag}
        while st:
            for c in self.children.get(st.pop(), []):
                if c not in seen:
                    seen.add(c)
                    out.append(c)
                    st.append(c)
        return out

    # -- handlers
    def expected(self, bus: str, ev: int) -> set:
        bi = self.bidx[bus]
        typ = self.etype.get(ev)
        if typ is None:
            return set()
        return {hi for hi, h in enumerate(self.sc['handlers']) if (h['bus'] == bi or h.get('bus2') == bi) and pattern_matches(h['pat'], typ)}

    def running_at(self, idx):
        """handlers that have entered before idx and not exited before idx -> list of me"""
        out = []
        for me, ents in self.enters.items():
            for n, e in enumerate(ents):
                if e < idx:
                    exs = self.exits.get(me, [])
                    x = exs[n] if n < len(exs) else None
                    if x is None or x > idx:
                        out.append(me)
        return out

    def awaiting_at(self, me, idx):
        """tag awaited by handler me at trace index idx (None if not suspended in an await)"""
        for b, e, t in self.awaits.get(me, []):
            if b < idx and (e is None or e > idx):
                return t
        return None

    def open_awaits_at(self, idx):
        out = {}
        for me, ivs in self.awaits.items():
            for b, e, t in ivs:
                if b < idx and (e is None or e > idx):
                    out[me] = t
        return out

    def reachable(self, entry_buses, typ):
        adj = collections.defaultdict(set)
        for s, d, pat in self.sc.get('fwd', []):
            if pattern_matches(pat, typ):
                adj[s].add(d)
        reach = set(entry_buses)
        st = list(entry_buses)
        while st:
            u = st.pop()
            for v in adj[u]:
                if v not in reach:
                    reach.add(v)
                    st.append(v)
        return reach

    def direct_buses(self, ev):
        """buses an event was handed to by user code (actor / handler dispatch or re-dispatch), accepted"""
        out = []
        for r in self.tr:
            if r['k'] in ('disp', 'redisp') and r.get('ev') == ev and r.get('ok'):
                out.append(self.bidx[r['bus']])
        return out
