"""Call-history world for C13/C14/C15: one bus (optionally a second one forwarding into it), payload-driven handler,
history of actor operations interpreted step by step with invariants checked at every dispatch and handler enter/exit."""
from __future__ import annotations

import asyncio
import collections
import datetime

from bubus import BaseEvent, EventBus

from bvt.vloop import Hang, VLoop

PRI = {'completed': 0, 'error': 0, 'started': 1, 'pending': 2}


class Y(BaseEvent):
    """an event type nobody handles"""

    tag: int = -1
    depth: int = 0


class X(BaseEvent):
    tag: int = -1
    d: float = 0.0
    kids: int = 0
    aw: bool = False
    depth: int = 0
    boom: bool = False


def run_history(sc: dict) -> dict:
    """sc: {N: int|None, maxdepth: int, ops: [...]}
    ops: ['burst', k, d, kids, aw, boom, to] | ['adv', dt] | ['await', i] | ['idle', timeout|None] | ['idlewait']
    """
    loop = VLoop(spin_budget=80_000)
    asyncio.set_event_loop(loop)
    T = loop.time
    N = sc.get('N')
    maxdepth = int(sc.get('maxdepth', 2))
    cap = int(sc.get('cap', 600))
    out = {'viol': [], 'info': collections.Counter(), 'log': []}
    viol = out['viol']
    info = out['info']
    log = out['log']
    base = datetime.datetime(2026, 1, 1, tzinfo=datetime.UTC)
    st = {'n': 0, 'ndisp': 0, 'prev': None, 'running': 0, 'last_activity': 0.0}
    events: dict[int, X] = {}
    accepted: dict[int, X] = {}
    state: dict[int, str] = {}  # tag -> 'queued' | 'running' | 'done'
    entered = collections.Counter()
    rejected = []  # (event, parent event or None, exc type)
    idle_calls = []
    import bubus.service as svc

    # successive histories run in successive event loops of one process; the library's process-wide lock lives on between them
    # (thrown away only after a run that was torn down in a hang) - see bvt.engine.run_scenario
    from bvt import engine as _eng

    if _eng._LOCK_DIRTY and hasattr(svc, '_global_eventbus_lock'):
        svc._global_eventbus_lock = None
    _eng._LOCK_DIRTY = False

    def mk(**kw):
        tag = st['n']
        st['n'] += 1
        e = X(tag=tag, event_created_at=base + datetime.timedelta(milliseconds=tag + 1), **kw)
        events[tag] = e
        return e

    async def main():
        bus = EventBus(name='B', max_history_size=N)
        out['bus'] = bus

        def observe(tag):
            hist = dict(bus.event_history)
            if N is not None and len(hist) > N:
                viol.append(('C13.a', f'history holds {len(hist)} events > max_history_size {N} at {tag} (t={T()})'))
            snap = {eid: (e, e.event_status) for eid, e in hist.items()}
            prev = st['prev']
            if prev is not None:
                gone = [(eid, e, s) for eid, (e, s) in prev.items() if eid not in snap]
                if gone:
                    info['evictions'] += len(gone)
                for eid, e, s_prev in gone:
                    now_s = e.event_status
                    if now_s != 'completed':
                        info['evicted-inflight'] += 1
                    if any(s in ('pending', 'started') for (_r, s) in prev.values()):
                        info['evictions-with-inflight-in-history'] += 1
                    for rid, (r, rs_prev) in prev.items():
                        if rid not in snap:
                            continue
                        if PRI[rs_prev] < PRI[now_s]:
                            viol.append(('C13.b', f'at {tag}: event {e.tag} (status {now_s}) was evicted while event {r.tag} (already {rs_prev} at the previous observation) remains'))
                            break
                        # oldest first within a class that both provably belonged to at eviction time
                        same = (rs_prev == 'completed' and s_prev == 'completed') or (now_s == 'pending' and r.event_status == 'pending') or (s_prev == 'started' and now_s == 'started' and rs_prev == 'started' and r.event_status == 'started')
                        if same and r.event_created_at < e.event_created_at:
                            viol.append(('C13.b', f'at {tag}: event {e.tag} was evicted although older event {r.tag} of the same class ({rs_prev}) remains'))
                            break
            st['prev'] = snap

        def disp(e, by):
            observe('pre-dispatch')
            st['ndisp'] += 1
            had_path = bus.name in e.event_path
            had_hist = e.event_id in bus.event_history  # the same object may have been accepted by an earlier call
            had_results = bool(e.event_results)
            try:
                got = bus.dispatch(e)
            except Exception as ex:  # noqa
                if not had_path and bus.name in e.event_path:
                    viol.append(('C14.e', f'dispatch of event {e.tag} raised {type(ex).__name__} but the bus is recorded in its event_path {e.event_path} as if it had been visited'))
                rejected.append((e, by, type(ex).__name__))
                info['rejected'] += 1
                if by is not None:
                    info['rejected-in-handler'] += 1
                if e.event_id in bus.event_history and not had_hist:
                    viol.append(('C14.b', f'dispatch of event {e.tag} raised {type(ex).__name__} but the event is in event_history'))
                if by is not None and any(c.event_id == e.event_id for c in by.event_children):
                    viol.append(('C14.c', f'dispatch of event {e.tag} inside the handler of event {by.tag} raised {type(ex).__name__} but it is recorded as a child of that event'))
                if e.event_results and not had_results:
                    viol.append(('C14.b', f'rejected event {e.tag} has a handler result'))
                observe('post-reject')
                log.append(f't={T():g} dispatch {e.tag} by {by.tag if by is not None else "actor"} REJECTED {type(ex).__name__}')
                return None
            if got is not e:
                viol.append(('C14.a', f'dispatch returned a different object for event {e.tag}'))
            accepted[e.tag] = e
            if isinstance(e, X):
                state[e.tag] = 'queued'  # (events nobody handles have no observable processing on the harness side)
            st['last_activity'] = T()
            observe('post-dispatch')
            return e

        async def h(e: X):
            entered[e.tag] += 1
            state[e.tag] = 'running'
            st['running'] += 1
            st['last_activity'] = T()
            observe('enter')
            try:
                if e.d:
                    await asyncio.sleep(e.d)
                pend = []
                if e.depth < maxdepth:
                    for _ in range(e.kids):
                        if st['ndisp'] >= cap:
                            break
                        c = disp(mk(d=e.d / 2, kids=(max(1 if maxdepth > 2 else 0, e.kids - 2) if e.kids <= 6 else 0), aw=e.aw, depth=e.depth + 1, event_timeout=e.event_timeout), e)
                        if c is not None and e.aw:
                            pend.append(c)
                for c in pend:
                    await c
                if e.boom:
                    raise ValueError('boom')
                return e.tag
            finally:
                state[e.tag] = 'done'
                st['running'] -= 1
                st['last_activity'] = T()
                observe('exit')

        def h_after(e: X):
            # a second, passive handler registered after h: when h's event is interrupted it is still pending
            return None

        bus.on(X, h)
        bus.on(X, h_after)

        def unfinished():
            """accepted events that have not left their handler; an event whose handler was refused by the recursion guard
            (error result recorded without the handler ever running) counts as finished"""
            out_ = []
            for t, s_ in state.items():
                if s_ == 'done':
                    continue
                e = events[t]
                if s_ == 'queued' and entered[t] == 0 and e.event_results and all(r.status in ('completed', 'error') for r in e.event_results.values()) and any(r.status == 'error' and r.handler_name.split('.')[-1] == 'h' for r in e.event_results.values()):
                    state[t] = 'done'
                    continue
                out_.append(t)
            return out_

        async def idle_call(timeout, rec):
            rec['busy_at_call'] = bool(unfinished())
            rec['t0'] = T()
            before_call = set(accepted)
            ndisp_at_call = st['ndisp']
            try:
                if timeout is None:
                    await bus.wait_until_idle()
                else:
                    await bus.wait_until_idle(timeout=timeout)
            except asyncio.CancelledError:
                rec['cancelled'] = True
                raise
            except BaseException as ex:  # noqa
                rec['exc'] = type(ex).__name__
            rec['t1'] = T()
            # "returns only when the bus has nothing queued, pending or started": judged at the instant of the return, whenever the
            # events were accepted (before or during the call)
            rec['notdone'] = list(unfinished())
            rec['notdone_before_call'] = [t for t in rec['notdone'] if t in before_call]
            rec['qsize'] = bus.event_queue.qsize() if bus.event_queue is not None else 0
            if timeout is None and rec['qsize'] and 'exc' not in rec:
                viol.append(('C15.a', f'wait_until_idle() returned at t={T():g} while {rec["qsize"]} event(s) were still queued on the bus'))
            if timeout is None and rec['notdone']:
                viol.append(('C15.a', f'wait_until_idle() returned at t={T():g} while events {rec["notdone"][:8]} (accepted before the call: {rec["notdone_before_call"][:8]}) were still {[state[t] for t in rec["notdone"][:8]]}'))

        idle_tasks = []
        for op in sc['ops']:
            k = op[0]
            if k == 'adv':
                await asyncio.sleep(op[1])
            elif k == 'burst':
                _, n, d, kids, aw, boom, to = op
                for _ in range(n):
                    if st['ndisp'] >= cap:
                        break
                    disp(mk(d=d, kids=kids, aw=aw, boom=boom, event_timeout=to), None)
            elif k == 'burstnh':
                for _ in range(op[1]):
                    if st['ndisp'] >= cap:
                        break
                    tag = st['n']
                    st['n'] += 1
                    y = Y(tag=tag, event_created_at=base + datetime.timedelta(milliseconds=tag + 1), event_timeout=None)
                    events[tag] = y
                    disp(y, None)
            elif k == 'again':
                # the same, already completed event object is dispatched to the bus again (its handlers will not re-run,
                # but the bus has to take it off its queue before it is idle)
                done_ = [e for t, e in sorted(accepted.items()) if isinstance(e, X) and state.get(t) == 'done' and e.event_status == 'completed']
                for e in done_[: op[1]]:
                    info['redispatched-completed'] += 1
                    try:
                        bus.dispatch(e)
                    except Exception:  # noqa
                        pass
                if len(op) > 2 and op[2] and done_:
                    # ... and wait_until_idle() is called at once, before the run loop has picked the event up
                    rec = {'timeout': None}
                    idle_calls.append(rec)
                    idle_tasks.append(asyncio.ensure_future(idle_call(None, rec)))
                    await asyncio.sleep(0)
            elif k == 'retry':
                # the caller kept the event objects whose dispatch was rejected and dispatches the same objects again
                again = [(e, by) for (e, by, _x) in rejected if by is None and e.tag not in accepted][: op[1]]
                for e, _by in again:
                    info['retried-rejected'] += 1
                    disp(e, None)
            elif k == 'await':
                if accepted:
                    tags = sorted(accepted)
                    e = accepted[tags[op[1] % len(tags)]]
                    t = asyncio.ensure_future(_await(e))
                    done, _p = await asyncio.wait({t}, timeout=60)
                    if not done:
                        viol.append(('C13.c', f'awaiting accepted event {e.tag} (depth {e.depth}, status {e.event_status}) did not return within 60 virtual seconds'))
                        t.cancel()
            elif k == 'idle':
                rec = {'timeout': op[1]}
                idle_calls.append(rec)
                idle_tasks.append(asyncio.ensure_future(idle_call(op[1], rec)))
                await asyncio.sleep(0)
            elif k == 'idlewait':
                pass
            observe('after-op')
        # drain: harness-owned quiescence
        silent = 0.0
        while True:
            await asyncio.sleep(0.25)
            quiet = st['running'] == 0 and not unfinished()
            if quiet and T() - st['last_activity'] >= 0.5:
                break
            if T() - st['last_activity'] > 30:
                out['stalled'] = {'running': st['running'], 'notdone': [(t, s) for t, s in state.items() if s != 'done'][:10]}
                break
        out['quiet_at'] = T()
        # liveness of idle calls: once quiescent every call must return
        if idle_tasks:
            done, pending = await asyncio.wait(idle_tasks, timeout=5.0)
            if pending and not out.get('stalled'):
                viol.append(('C15.b', f'{len(pending)} wait_until_idle() call(s) had not returned 5 virtual seconds after the bus became quiescent (t={T():g}); history: {[(e.tag, e.event_status) for e in bus.event_history.values()][:8]}'))
            for t in pending:
                t.cancel()
        # everything accepted was handled exactly once, completes and is awaitable
        for tag, e in accepted.items():
            if not isinstance(e, X):
                continue
            n = entered[tag]
            guard = any(r.status == 'error' and isinstance(r.error, RuntimeError) and 'Infinite loop' in str(r.error) for r in e.event_results.values())
            if n != 1 and not (n == 0 and guard and maxdepth > 2):
                viol.append(('C14.a' if n == 0 else 'C13.c', f'accepted event {tag} (depth {e.depth}) was handled {n} times; status {e.event_status}'))
                break
        for tag, e in accepted.items():
            sig = e.event_completed_signal
            if not (sig is not None and sig.is_set() and e.event_status == 'completed'):
                viol.append(('C13.c', f'accepted event {tag} ({type(e).__name__}, depth {e.depth}) not complete at quiescence: status {e.event_status} signalled {bool(sig and sig.is_set())} results {[(r.status, [c.tag for c in r.event_children if not (c.event_completed_signal and c.event_completed_signal.is_set())]) for r in e.event_results.values()]}'))
                break
        for e, by, _x in rejected:
            if by is not None:
                sig = by.event_completed_signal
                if not (sig is not None and sig.is_set()):
                    viol.append(('C14.d', f'event {by.tag}, whose handler attempted the rejected dispatch of event {e.tag}, never completed'))
                    break
        observe('end')
        out['hist_len'] = len(bus.event_history)

    async def _await(e):
        return await e

    # dispatch with no running event loop must raise and leave no trace (C14)
    try:
        nl_bus = EventBus(name='NL', max_history_size=N)
        nl_event = X(tag=-2)
        try:
            nl_bus.dispatch(nl_event)
            viol.append(('C14.b', 'dispatch() without a running event loop returned instead of raising'))
        except RuntimeError:
            if nl_event.event_id in nl_bus.event_history or (nl_bus.event_queue is not None and nl_bus.event_queue.qsize()):
                viol.append(('C14.b', 'dispatch() without a running event loop raised but left the event in the history / queue'))
            info['rejected-no-loop'] += 1
    except Exception as ex:  # noqa
        viol.append(('C14.b', f'dispatch() without a running event loop raised {type(ex).__name__}: {ex}'))
    try:
        try:
            loop.run_until_complete(main())
        except Hang as e:
            viol.append(('HANG', f'{e}'))
            out['hang'] = str(e)
    finally:
        try:
            loop.spin_budget = 10**9

            async def td():
                b = out.get('bus')
                if b is not None:
                    try:
                        await asyncio.wait_for(b.stop(clear=True), 5)
                    except BaseException:  # noqa
                        pass

            for t in asyncio.all_tasks(loop):
                t.cancel()
            try:
                loop.run_until_complete(asyncio.sleep(0))
            except BaseException:  # noqa
                pass
            # The loop has ended the way asyncio.run() ends it (all tasks cancelled) and nothing is running now: the bus that WAS used
            # in that loop must refuse a dispatch from plain synchronous code just like a fresh one, and keep no trace of it (C14)
            ub = out.get('bus')
            if ub is not None and not out.get('hang'):
                late = X(tag=-3)
                try:
                    ub.dispatch(late)
                    viol.append(('C14.b', 'dispatch() on a bus whose event loop has ended (no running loop) returned instead of raising: the event is accepted and nothing will ever process it'))
                except RuntimeError:
                    if late.event_id in ub.event_history or ub.name in late.event_path:
                        viol.append(('C14.b', 'dispatch() on a bus whose event loop has ended raised but left the event in the history / path'))
                    info['rejected-no-loop'] += 1
                except Exception as ex:  # noqa
                    viol.append(('C14.b', f'dispatch() on a bus whose event loop has ended raised {type(ex).__name__}: {ex}'))
            try:
                loop.run_until_complete(td())
            except BaseException:  # noqa
                pass
            for t in asyncio.all_tasks(loop):
                t.cancel()
                if hasattr(t, '_log_destroy_pending'):
                    t._log_destroy_pending = False
            try:
                loop.run_until_complete(asyncio.sleep(0))
            except BaseException:  # noqa
                pass
        finally:
            loop.close()
            asyncio.set_event_loop(None)
            EventBus.all_instances.clear()
    out.pop('bus', None)
    if out.get('hang') or out.get('stalled'):
        _eng._LOCK_DIRTY = True
    out['accepted'] = len(accepted)
    out['rejected'] = len(rejected)
    out['idle_calls'] = [{k: v for k, v in r.items()} for r in idle_calls]
    out['entered'] = sum(entered.values())
    return out
