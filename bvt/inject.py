"""Fault injection at a chosen loop iteration (C16): stop()/stop(timeout)/stop(clear) on a bus, or cancel-all as asyncio.run() does."""
from __future__ import annotations

import asyncio


def arm(w, inj: dict, out: dict) -> None:
    loop = w.loop
    k = inj.get('k')
    if k is None:
        return
    at = out['iter0'] + 1 + int(k)
    kind = inj['kind']

    def fire():
        if w.finished:
            return  # the scenario is over: nothing left to interrupt
        if kind == 'stop':
            bi = inj['bus'] % len(w.buses)
            bus = w.buses[bi]

            async def stopper():
                rec = w.rec('inj-stop-begin', bus=bus.name, timeout=inj.get('timeout'), clear=bool(inj.get('clear')), started=w.bus_started(bi), busy=w.bus_busy(bi), iters=loop.iterations, running=[list(m) for m in w.running if m[0] == bus.name])
                try:
                    await bus.stop(timeout=inj.get('timeout'), clear=bool(inj.get('clear')))
                    exc = None
                except asyncio.CancelledError:
                    raise
                except BaseException as ex:  # noqa
                    exc = type(ex).__name__
                w.rec('inj-stop-end', bus=bus.name, exc=exc, iters=loop.iterations, took=loop.time() - rec['t'])

            w.keep.append(loop.create_task(stopper(), name='bvt-stopper'))
        elif kind == 'cancel_all':
            me = out.get('_main_task')
            tasks = [t for t in asyncio.all_tasks(loop) if t is not me and not t.done()]
            busy = [bool(w.bus_busy(i)) for i in range(len(w.buses))]
            w.rec('inj-cancel', ntasks=len(tasks), names=sorted(t.get_name()[:40] for t in tasks), busy=busy, iters=loop.iterations)
            for t in tasks:
                t.cancel()

            async def waiter():
                # a handler that needs time to unwind when cancelled (generated clean-up delay) legitimately takes that long; the
                # bus itself gets 1.0 virtual second on top
                # (nested handlers unwind one after the other: child first, then the handler that awaited it, ...)
                cl = [h.get('cleanup') or 0 for h in w.sc.get('handlers', [])]
                grace = 1.0 + sum(cl) * (int(w.sc.get('maxdepth', 1)) + 1)
                done, pending = await asyncio.wait(tasks, timeout=grace) if tasks else (set(), set())
                w.rec('inj-cancel-done', pending=sorted(t.get_name()[:60] for t in pending), iters=loop.iterations)

            w.keep.append(loop.create_task(waiter(), name='bvt-cancel-waiter'))

    loop.at_iteration(at, fire)
