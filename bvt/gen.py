"""Hypothesis strategies producing scenarios for bvt.engine. Every random choice is a Hypothesis draw."""
from __future__ import annotations

from hypothesis import strategies as st

DUR = [0.01, 0.05, 0.09, 0.1, 0.11, 0.25, 0.5, 1.0]
SHORT = [0.01, 0.05, 0.09, 0.1, 0.11, 0.25]

ASYNC_KINDS = ['async', 'async', 'async', 'amethod', 'acmethod', 'abusmeth']
SYNC_KINDS = ['sync', 'sync', 'method', 'cmethod', 'smethod', 'busmeth']


class Profile:
    """Generator profile; every property sets the knobs so that its interesting shape is produced by construction."""

    def __init__(self, **kw):
        self.min_buses = 1
        self.max_buses = 3
        self.par = 0.2  # probability that a bus has parallel_handlers=True
        self.fwd = 0.4  # probability that forwarding edges are generated at all
        self.max_fwd = 3
        self.typed_fwd = True
        self.maxdepth = [2, 2, 3]  # choices
        self.wild = 0.3  # probability that a handler slot is a wildcard handler
        self.wild_dispatch = True
        self.deep_wild = False
        self.subclass = 0.25  # probability that a bus is an instance of a second EventBus subclass
        self.cleanup = 0.0  # probability that an async handler needs time to unwind when cancelled
        self.cleanup_durs = [0.05, 0.25, 0.5]  # allow a dispatching wildcard handler with maxdepth 3 (trips the recursion guard)
        self.strpat = 0.2
        self.sync = 0.25
        self.min_handlers = 1
        self.max_handlers_per_level = 3
        self.max_ops = 4
        self.ops = ['sleep', 'sleep', 'yield', 'disp', 'disp', 'disp', 'awaitall']
        self.modes = ['await', 'await', 'later', 'ff']
        self.raises = 0.0
        self.raise_kinds = ['VE', 'custom', 'KE', 'RT', 'chain']
        self.readbus = 0.0
        self.xp = 0.0
        self.rets = ['idx', 'idx', 'none', 'str']
        self.dual = 0.0  # probability a handler function is registered on a second bus too
        self.hist = [None, None, None, 50]
        self.max_actors = 3
        self.max_actor_ops = 6
        self.actor_ops = ['disp', 'disp', 'disp', 'sleep', 'await', 'await', 'yield']
        self.warm = [True, False]
        self.probe = False  # passive sync wildcard probe handler on every bus
        self.watch = False
        self.durs = DUR
        self.cap = 120
        self.timeouts = None  # strategy for per-type timeouts or None
        self.preload = 0  # max unrelated events preloaded per bus by a dedicated first actor
        self.burst = [2, 3, 5]
        self.acc_names = ['event_result', 'event_results_list', 'event_results_by_handler_name']  # accessors the 'acc' actor op may call
        self.fwdreplica = 0.0  # probability that a handler forwards a replica (same id, other object) of the event it is handling
        self.shadow = 0.0  # probability that a second, unused bus is requested with the name of an existing one
        self.hredisp = 0.0  # probability that a handler program re-dispatches an existing root event object (a 'retry this job' handler)
        self.fan = 0.0  # probability that one root handler fans out more children than the bus accepts (back-pressure inside a handler)
        self.__dict__.update(kw)


def chance(draw, prob):
    """True with probability ~prob; shrinks towards False (feature absent)."""
    return draw(st.integers(0, 99)) >= 100 - int(round(prob * 100))


def _dur(draw, p):
    return draw(st.sampled_from(p.durs))


@st.composite
def handler_prog(draw, p: Profile, nb: int, level: int, maxdepth: int, is_async: bool, wildcard: bool):
    ops = []
    n = draw(st.integers(0, p.max_ops))
    # a dispatching wildcard handler handles its own descendants: keep that within the documented 2-level recursion guard
    can_disp = level < maxdepth and (not wildcard or (p.wild_dispatch and (maxdepth <= 2 or p.deep_wild)))
    for _ in range(n):
        choices = list(p.ops) if is_async else [o for o in p.ops if o == 'disp']
        if not can_disp:
            choices = [o for o in choices if o not in ('disp', 'awaitall')]
        if p.readbus and chance(draw, p.readbus):
            ops.append(['readbus'])
            continue
        if not choices:
            break
        k = draw(st.sampled_from(choices))
        if k == 'sleep':
            ops.append(['sleep', _dur(draw, p)])
        elif k == 'yield':
            ops.append(['yield', draw(st.integers(1, 3))])
        elif k == 'disp':
            mode = draw(st.sampled_from(p.modes)) if is_async else 'ff'
            flags = {}
            if p.xp and chance(draw, p.xp):
                flags['xp'] = draw(st.sampled_from(['fake', 'root0']))
            op = ['disp', draw(st.integers(0, nb - 1)), 'n', mode]
            if flags:
                op.append(flags)
            ops.append(op)
        elif k == 'awaitall':
            ops.append(['awaitall'])
    if getattr(p, 'twin', 0) and is_async and level < maxdepth and not wildcard and chance(draw, p.twin):
        ops.insert(draw(st.integers(0, len(ops))), ['twin', draw(st.integers(0, nb - 1))])
    if p.fwdreplica and nb > 1 and chance(draw, p.fwdreplica):
        ops.insert(draw(st.integers(0, len(ops))), ['fwdreplica', draw(st.integers(0, nb - 1))])
    if p.hredisp and chance(draw, p.hredisp):
        ops.insert(draw(st.integers(0, len(ops))), ['hredisp', draw(st.integers(0, 7)), draw(st.integers(0, nb - 1))])
    if p.raises and chance(draw, p.raises):
        pos = draw(st.integers(0, len(ops)))
        ops = ops[:pos] + [['raise', draw(st.sampled_from(p.raise_kinds))]]
    return ops


@st.composite
def scenario(draw, p: Profile):
    nb = draw(st.integers(p.min_buses, p.max_buses))
    ranks = draw(st.permutations(list(range(1, nb + 1))))
    buses = []
    for i in range(nb):
        b = {'par': chance(draw, p.par), 'hist': draw(st.sampled_from(p.hist)), 'rank': ranks[i]}
        if chance(draw, p.subclass):
            b['cls'] = 1  # a sibling EventBus subclass
        buses.append(b)
    maxdepth = draw(st.sampled_from(p.maxdepth))
    fwd = []
    if nb > 1 and p.fwd and chance(draw, p.fwd):
        edges = draw(st.lists(st.tuples(st.integers(0, nb - 1), st.integers(0, nb - 1)), min_size=1, max_size=p.max_fwd, unique=True))
        for s, d in edges:
            pat = '*'
            if p.typed_fwd and draw(st.integers(0, 3)) == 0:
                pat = draw(st.integers(0, maxdepth))
            fwd.append([s, d, pat])
    handlers = []
    if p.probe:
        for i in range(nb):
            handlers.append({'bus': i, 'pat': '*', 'kind': 'sync', 'prog': [], 'ret': 'none', 'probe': True})
    for level in range(maxdepth + 1):
        lo = p.min_handlers if level == 0 else 0
        nh = draw(st.integers(lo, p.max_handlers_per_level))
        for _ in range(nh):
            bi = draw(st.integers(0, nb - 1))
            wildcard = chance(draw, p.wild)
            is_async = not (chance(draw, p.sync))
            kind = draw(st.sampled_from(ASYNC_KINDS if is_async else SYNC_KINDS))
            if wildcard:
                pat = '*'
            elif chance(draw, p.strpat):
                pat = f's{level}'
            else:
                pat = level
            prog = draw(handler_prog(p, nb, 0 if wildcard else level, maxdepth, is_async, wildcard))
            h = {'bus': bi, 'pat': pat, 'kind': kind, 'prog': prog, 'ret': draw(st.sampled_from(p.rets))}
            if kind in ('busmeth', 'abusmeth'):
                h['owner'] = draw(st.integers(0, nb - 1))  # the bus instance the method is bound to (often the bus it is registered on)
            if p.cleanup and is_async and chance(draw, p.cleanup):
                h['cleanup'] = draw(st.sampled_from(p.cleanup_durs))
            if p.dual and nb > 1 and chance(draw, p.dual):
                h['bus2'] = draw(st.integers(0, nb - 1).filter(lambda x: x != bi))
            handlers.append(h)
    actors = []
    if p.preload:
        pre = []
        for i in range(nb):
            for _ in range(draw(st.integers(0, p.preload))):
                pre.append(['disp', i, draw(st.integers(0, maxdepth))])
        if pre:
            actors.append(pre)
    na = draw(st.integers(1, p.max_actors))
    for ai in range(na):
        ops = []
        nops = draw(st.integers(1, p.max_actor_ops))
        for _ in range(nops):
            k = draw(st.sampled_from(p.actor_ops))
            if k == 'disp':
                ops.append(['disp', draw(st.integers(0, nb - 1)), 0])
            elif k == 'disp2':
                # one new event object handed directly to two buses
                ops.append(['disp', draw(st.integers(0, nb - 1)), draw(st.integers(0, maxdepth)), {'also': draw(st.integers(0, nb - 1))}])
            elif k == 'dispany':
                ops.append(['disp', draw(st.integers(0, nb - 1)), draw(st.integers(0, maxdepth))])
            elif k == 'burst':
                ops.append(['burst', draw(st.integers(0, nb - 1)), 0, draw(st.sampled_from(p.burst))])
            elif k == 'sleep':
                ops.append(['sleep', _dur(draw, p)])
            elif k == 'yield':
                ops.append(['yield', draw(st.integers(1, 3))])
            elif k == 'await':
                ops.append(['await', draw(st.integers(0, 7))])
            elif k == 'awaitdesc':
                ops.append(['awaitdesc', draw(st.integers(0, 7)), draw(st.integers(0, 7))])
            elif k == 'redisp':
                ops.append(['redisp', draw(st.integers(0, 7)), draw(st.integers(0, nb - 1))])
            elif k == 'replay':
                ops.append(['replay', draw(st.integers(0, 7)), draw(st.integers(0, nb - 1))])
            elif k == 'status':
                ops.append(['status', draw(st.integers(0, 7))])
            elif k == 'idle':
                ops.append(['idle', draw(st.integers(0, nb - 1)), None])
            elif k == 'expect':
                ops.append(['expect', draw(st.integers(0, nb - 1)), draw(st.integers(0, maxdepth)), draw(st.sampled_from([0.0625, 0.1875, 0.3125, 0.5625]))])
            elif k == 'acc':
                ops.append(['acc', draw(st.integers(0, 7)), draw(st.sampled_from(p.acc_names)), draw(st.booleans()), draw(st.booleans())])
        actors.append(ops)
    sc = {
        'buses': buses,
        'fwd': fwd,
        'handlers': handlers,
        'actors': actors,
        'maxdepth': maxdepth,
        'cap': p.cap,
        'warm': draw(st.sampled_from(p.warm)),
    }
    if p.fan and chance(draw, p.fan):
        cands = [i for i, h in enumerate(handlers) if h['pat'] in (0, 's0') and h['kind'] in ASYNC_KINDS and not h.get('probe')]
        if cands and maxdepth >= 1:
            hi = draw(st.sampled_from(cands))
            tb = draw(st.integers(0, nb - 1))
            h = dict(handlers[hi])
            pos = draw(st.integers(0, len(h['prog'])))
            if h['prog'] and h['prog'][-1][0] == 'raise':
                pos = min(pos, len(h['prog']) - 1)
            h['prog'] = h['prog'][:pos] + [['fan', tb, draw(st.sampled_from([52, 60, 75])), draw(st.booleans())]] + h['prog'][pos:]
            handlers[hi] = h
            buses[tb]['hist'] = 50  # the back-pressure limit is only enforced on buses with a history limit
            sc['cap'] = max(sc['cap'], 400)
    if getattr(p, 'hre_any', False):
        sc['hre_any'] = True
    if p.shadow and chance(draw, p.shadow):
        sc['shadow'] = draw(st.lists(st.integers(0, nb - 1), min_size=1, max_size=nb, unique=True))
    if p.watch:
        sc['watch'] = True
    if p.timeouts is not None:
        sc['timeouts'] = draw(p.timeouts)
    return sc
