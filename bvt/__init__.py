"""bvt - bubus virtual-time property-based verification harness."""
