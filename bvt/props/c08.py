"""C08 Completion is stable: a completed event never changes again."""
from bvt import oracles
from bvt.gen import Profile, scenario
from bvt.props._scen import common_classes, judge

ID = 'C08'
LEVEL = 'exploration'
RULE = (
    'Generated forwarding chains/diamonds/cycles whose downstream handlers take time; actors await events without '
    'first waiting for the other buses; some events are handed directly to two buses in the same breath (no forwarding handler; the first bus may have no handler for it); no user re-dispatch after completion. The harness reads status + completion '
    'signal of every event at every trace record (an observation any user code could make) and at every await return; '
    'once an event was observed complete, a fingerprint (status, result ids, statuses, value/error identities) is '
    'compared at every later record (value content included: actors call every result accessor, the flat list / dict views among them, on '
    'completed events whose handlers returned lists and dicts - a view must not rewrite a recorded value). Also: an external await must not return before the handlers of every bus the '
    'event was enqueued on have finished. Non-trivial = some event was forwarded to a bus whose handler had not finished '
    'when the handlers of the first bus had; distinct by canonical JSON.'
)
ASSUMPTIONS = ['virtual time', 'no re-dispatch by user code; a quarter of the scenarios carry event timeouts (a parent timing out later must not touch an already completed child); some handlers need time to unwind when cancelled']

from hypothesis import strategies as _st


@_st.composite
def _timeouts(draw):
    # most scenarios have no timeouts; some let a parent time out after a child has already completed
    if draw(_st.integers(0, 3)) != 0:
        return {}
    return {str(t): draw(_st.sampled_from([0.13, 0.27, 0.41, 0.77])) for t in range(4) if draw(_st.booleans())}


P = Profile(cleanup=0.3, cleanup_durs=[0.05, 0.25, 0.5], timeouts=_timeouts(), min_buses=2, max_buses=3, fwd=1.0, typed_fwd=True, watch=True, actor_ops=['disp', 'disp', 'dispany', 'disp2', 'sleep', 'await', 'await', 'status', 'yield', 'acc'], acc_names=['event_result', 'event_results_list', 'event_results_by_handler_name', 'event_results_by_handler_id', 'event_results_flat_list', 'event_results_flat_dict'], rets=['idx', 'list', 'list', 'dict', 'dict', 'none', 'str'], maxdepth=[1, 2], wild=0.4, par=0.15, raises=0.1, durs=[0.01, 0.05, 0.1, 0.11, 0.25, 0.5])


def budget(tier):
    return {'examples': 6000 if tier == 'quick' else 120000, 'wall_s': 300 if tier == 'quick' else 3000, 'shrink_s': 60}


@_st.composite
def _timeouts_always(draw):
    to = {str(t): draw(_st.sampled_from([0.13, 0.27, 0.41])) for t in range(4) if draw(_st.integers(0, 3))}
    return to or {'0': 0.27}


# second profile: an awaiting handler is cut off by its timeout while several handlers of the awaited event are in flight on a
# parallel bus, some of which need time to unwind - whatever they do afterwards must not touch the event once it was seen complete
P_CUT = Profile(timeouts=_timeouts_always(), cleanup=0.5, cleanup_durs=[0.25, 0.5], watch=True, min_buses=2, max_buses=3, par=0.5, min_handlers=2, max_handlers_per_level=3,
                actor_ops=['disp', 'disp', 'sleep', 'await', 'status'], max_actor_ops=5, raises=0.0, maxdepth=[1, 2], wild=0.2, fwd=0.15, sync=0.1,
                modes=['await', 'await', 'await', 'later'], ops=['sleep', 'sleep', 'disp', 'disp', 'disp', 'awaitall'], durs=[0.05, 0.1, 0.25, 0.5])


def enumerate_cases(tier, seed):
    """the same shape, enumerated: handler h0 on serial bus 0 awaits a child processed inline by parallel bus 1 with two handlers and is cut
    off by its timeout; the later sibling needs `cl` seconds of awaited clean-up and then either re-raises or returns a value"""
    import itertools

    for T0, cl, first_d, warm, ranks in itertools.product((0.13, 0.27), (0.25, 0.5), (1.0, 0.05), (True, False), itertools.permutations((1, 2))):
        yield {
            'buses': [{'par': False, 'hist': None, 'rank': ranks[0]}, {'par': True, 'hist': None, 'rank': ranks[1]}], 'fwd': [],
            'handlers': [
                {'bus': 0, 'pat': 0, 'kind': 'async', 'prog': [['disp', 1, 1, 'await']], 'ret': 'idx'},
                {'bus': 1, 'pat': 1, 'kind': 'async', 'prog': [['sleep', first_d]], 'ret': 'idx'},
                {'bus': 1, 'pat': 1, 'kind': 'async', 'prog': [['sleep', 1.0]], 'ret': 'idx', 'cleanup': cl},
            ],
            'actors': [[['disp', 0, 0], ['await', 0], ['status', 0], ['sleep', 1.0], ['status', 0]]],
            'maxdepth': 1, 'cap': 20, 'warm': warm, 'timeouts': {'0': T0}, 'watch': True,
        }


def strategy(tier):
    from bvt.props._scen import mixed

    return _st.integers(0, 3).flatmap(lambda k: scenario(P_CUT) if k == 0 else mixed(scenario(P), tier, ID, need_watch=True))


def _lagging_forward(F):
    """event enqueued on >= 2 buses where a later bus's handler exits after the first bus's handlers all exited"""
    for ev in F.accepted:
        buses = [(idxs[0], b) for (b, e), idxs in F.enq.items() if e == ev]
        if len(buses) < 2:
            continue
        buses.sort()
        first = buses[0][1]
        first_done = max([x for (b, e, h), xs in F.exits.items() if b == first and e == ev for x in xs], default=None)
        if first_done is None:
            continue
        for _i, b in buses[1:]:
            later = [x for (bb, e, h), xs in F.exits.items() if bb == b and e == ev for x in xs]
            if later and max(later) > first_done and F.tr[max(later)]['t'] > F.tr[first_done]['t']:
                return True
    return False


def nontrivial(F):
    return _lagging_forward(F)


def classes(F):
    cl = common_classes(F)
    if _lagging_forward(F):
        cl.append('downstream-bus-finishes-later')
    how = {v['how'] for v in F.out.get('observed_complete', {}).values()}
    cl += ['observed:' + h for h in sorted(how)]
    oc = F.out.get('observed_complete', {})
    if any(r['k'] == 'redisp' and r.get('also') and r.get('ok') for r in F.tr):
        cl.append('same-object-handed-to-two-buses')
        for r in F.tr:
            if r['k'] == 'redisp' and r.get('also') and r.get('ok'):
                first = next((x['bus'] for x in F.tr if x['k'] == 'disp' and x['ev'] == r['ev']), None)
                if first is not None and not F.expected(first, r['ev']) and F.expected(r['bus'], r['ev']):
                    cl.append('two-buses:first-has-no-handler-second-has')
                    break
    for r in F.tr:
        if r['k'] == 'a-acc':
            cl.append('accessor-call:' + r['name'])
            rows = [x for x in r['rows'] if x['st'] == 'completed' and x['res'].__class__ is str and x['res'][:1] in '[{']
            if r['name'].startswith('event_results_flat') and len(rows) >= 2:
                cl.append('flat-accessor-merging>=2-container-results')
    return cl


def run_case(sc):
    return judge(sc, [oracles.c08], nontrivial, classes)
