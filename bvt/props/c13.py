"""C13 History is bounded and eviction spares in-flight events (generated call histories, invariants at every step)."""
from hypothesis import strategies as st

from bvt.histworld import run_history

ID = 'C13'
LEVEL = 'exploration'
RULE = (
    'Generated call histories (bursts of 1-8 dispatches with payload-driven handler duration, 0-4 fire-and-forget or '
    'awaited children per event to depth 2, time advances, awaits, re-dispatch of completed and already evicted event objects) on a bus with max_history_size N in 1..6 (and N=50 '
    'with bursts around the 50/100 limits in the thorough tier); invariants checked at every dispatch, handler '
    'enter/exit and after every operation: len(history) <= N; eviction order consistent with completed < started < '
    'pending, oldest first (judged conservatively from consecutive snapshots); at the end every accepted event was '
    'handled exactly once, is complete and awaitable. A quarter of the cases are 2-3-bus scenarios with forwarding and histories of 1-5 (an event '
    'in flight on a target bus sits in the forwarding bus\'s history), watched by the same rules at every trace record. Non-trivial = at least one eviction happened while an in-flight '
    'event was in the history; distinct by canonical JSON.'
)
ASSUMPTIONS = ['virtual time', 'explicit strictly increasing event_created_at so "oldest" is unambiguous', 'eviction classes judged by the public event_status']

dur = st.sampled_from([0, 0.01, 0.05, 0.1, 0.2])
op_small = st.one_of(
    st.tuples(st.just('adv'), st.sampled_from([0.01, 0.1, 0.3, 1.0])).map(list),
    st.tuples(st.just('burst'), st.integers(1, 8), dur, st.integers(0, 4), st.booleans(), st.just(False), st.none()).map(list),
    st.tuples(st.just('burst'), st.integers(1, 8), dur, st.integers(0, 4), st.booleans(), st.just(False), st.none()).map(list),
    st.tuples(st.just('await'), st.integers(0, 30)).map(list),
    # the same, already completed (often already evicted) event objects are dispatched to the bus again
    st.tuples(st.just('again'), st.integers(1, 3), st.just(False)).map(list),
)
small = st.fixed_dictionaries({'N': st.integers(1, 6), 'maxdepth': st.just(2), 'ops': st.lists(op_small, min_size=1, max_size=7)})
op_big = st.one_of(
    st.tuples(st.just('adv'), st.sampled_from([0.01, 0.1, 0.3, 1.0])).map(list),
    st.tuples(st.just('burst'), st.sampled_from([1, 5, 30, 49, 50, 51, 60]), dur, st.sampled_from([0, 1, 3, 60]), st.booleans(), st.just(False), st.none()).map(list),
)
big = st.fixed_dictionaries({'N': st.sampled_from([10, 50]), 'maxdepth': st.just(1), 'ops': st.lists(op_big, min_size=1, max_size=4)})


def budget(tier):
    return {'examples': 3000 if tier == 'quick' else 60000, 'wall_s': 300 if tier == 'quick' else 3000, 'shrink_s': 60}


# The call-history world above has one bus. A quarter of the cases are 2-3-bus whole-program scenarios with forwarding and bounded
# histories instead (an event in flight on a target bus sits in the forwarding bus's history too), watched by the same conservative
# eviction rules at every trace record.
from bvt.gen import Profile, scenario  # noqa: E402

P_FWD = Profile(min_buses=2, max_buses=3, par=0.1, fwd=1.0, typed_fwd=False, hist=[1, 2, 2, 3, 5], maxdepth=[1, 2], wild=0.2, raises=0.05, cap=24, max_actors=3, max_actor_ops=6,
                actor_ops=['disp', 'disp', 'disp', 'burst', 'sleep', 'await', 'yield'], modes=['await', 'await', 'later', 'ff'], burst=[2, 3], durs=[0.01, 0.05, 0.1, 0.25])


def _run_engine_case(sc):
    from bvt import oracles
    from bvt.engine import fmt_trace, run_scenario
    from bvt.facts import Facts

    sc = dict(sc, histwatch=True)
    out = run_scenario(sc)
    F = Facts(sc, out)
    h = out.get('hist') or {}
    viol = [tuple(v) for v in h.get('viol', [])]
    # eviction never changes what gets processed: exactly-once delivery and completion as without a bound
    viol += [('C13.c', d[1]) for d in oracles.c01(F) if d[0] in ('C01.a', 'C01.b', 'C01.d')]
    if F.hang:
        viol.append(('C13.c', f'run never became quiescent: {oracles.hang_text(F)}'))
    else:
        viol += [('C13.c', d[1]) for d in oracles.all_complete(F, 'C13.c')]
    cl = ['multi-bus-forwarding-scenario', f'N={min(b["hist"] for b in sc["buses"])}']
    if h.get('evictions'):
        cl.append('evictions')
    if h.get('evicted_inflight'):
        cl.append('evicted-inflight-event')
    return {'viol': viol[:1], 'nontrivial': bool(h.get('evictions')), 'classes': cl, 'hang': bool(F.hang), 'log': fmt_trace(out)}


def strategy(tier):
    hw = st.one_of(small, small, small, small, small, small, small, big) if tier == 'quick' else st.one_of(small, small, small, big)
    return st.integers(0, 3).flatmap(lambda k: scenario(P_FWD) if k == 0 else hw)


MINE = ('C13.a', 'C13.b', 'C13.c', 'HANG')


def run_case(sc):
    if 'buses' in sc:
        return _run_engine_case(sc)
    out = run_history(sc)
    viol = [v for v in out['viol'] if v[0] in MINE or v[0] == 'C14.a']
    viol = [(('C13.c' if v[0] in ('HANG', 'C14.a') else v[0]), v[1]) for v in viol]
    info = out['info']
    cl = [f'N={sc["N"]}']
    if info['evictions']:
        cl.append('evictions')
    if info['evicted-inflight']:
        cl.append('evicted-inflight-event')
    if info['evictions-with-inflight-in-history']:
        cl.append('eviction-with-inflight-in-history')
    if info['rejected']:
        cl.append('rejections')
    if info.get('redispatched-completed'):
        cl.append('completed-object-dispatched-again')
    if out.get('stalled'):
        cl.append('stalled')
        viol.append(('C13.c', f'run never became quiescent: {out["stalled"]}'))
    return {'viol': viol, 'nontrivial': info['evictions-with-inflight-in-history'] > 0, 'classes': cl, 'hang': bool(out.get('hang') or out.get('stalled')), 'log': out['log'][:200]}
