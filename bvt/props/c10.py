"""C10 Handler timeouts are enforced and contained."""
from hypothesis import strategies as st

from bvt import oracles
from bvt.gen import Profile, scenario
from bvt.props._scen import common_classes, judge

ID = 'C10'
LEVEL = 'exploration'
RULE = (
    'Generated per-event-type event_timeout (off-grid k/16+j/64 so that a deadline never coincides with a generated '
    'sleep, plus an on-grid class j=0 where it does) x handler programs on a 1/16 s grid whose cumulative duration '
    'falls before/after the deadline at every op boundary (before dispatching, between dispatch and await, while the '
    'child runs, while a grandchild runs), depth <= 3, serial buses, follow-up events dispatched after the timeouts, '
    'final wait_until_idle(). Oracle: no handler activity strictly after enter+timeout; cancelled exits only at the own '
    'deadline or that of an awaiting ancestor; a handler cut at its own deadline has a TimeoutError error result; '
    'remaining handlers run once unless their event was itself interrupted (then their results are errors); at '
    'quiescence nothing is pending/started and every accepted event is complete; wait_until_idle() returns. '
    'Non-trivial = some handler was observed cancelled at its own deadline; distinct by canonical JSON.'
)
ASSUMPTIONS = ['virtual time, dyadic durations (exact float arithmetic)', 'exact ties between a deadline and another timer accept both outcomes; only "nothing runs strictly after the deadline" is judged there']

GRID = [1 / 16, 1 / 8, 1 / 8, 1 / 4, 1 / 4, 1 / 2, 1.0]


@st.composite
def _timeouts(draw):
    out = {}
    ongrid = draw(st.integers(0, 5)) == 0
    for typ in range(4):
        if draw(st.integers(0, 4)) == 0:
            continue  # None: no timeout for this type
        if draw(st.integers(0, 11)) == 0:
            out[str(typ)] = 'inf'  # event_timeout=float('inf'): never fires, but it is a legal float
            continue
        if draw(st.integers(0, 11)) == 0:
            out[str(typ)] = draw(st.sampled_from([0, 0.0]))  # an explicit zero: every handler that suspends at all is over time at once
            continue
        a = draw(st.sampled_from([1, 2, 3, 4, 5, 6, 8, 10, 12, 16, 24]))
        j = 0 if ongrid else draw(st.integers(1, 3))
        out[str(typ)] = a / 16 + j / 64
    return out


P = Profile(par=0.15, fwd=0.15, durs=GRID, timeouts=_timeouts(), maxdepth=[1, 2, 3], wild=0.1, raises=0.05, max_ops=5, ops=['sleep', 'sleep', 'sleep', 'yield', 'disp', 'disp', 'disp', 'awaitall'], modes=['await', 'await', 'await', 'later', 'later', 'ff', 'ff', 'awaitacc'], actor_ops=['disp', 'disp', 'sleep', 'sleep', 'await', 'dispany', 'idle'], max_actor_ops=6, hist=[None])


@st.composite
def _sc(draw):
    sc = draw(scenario(P))
    # follow-up traffic long after every timeout, then wait_until_idle on every bus
    nb = len(sc['buses'])
    tail = [['sleep', 4.0]]
    for _ in range(draw(st.integers(1, 3))):
        tail.append(['disp', draw(st.integers(0, nb - 1)), draw(st.integers(0, sc['maxdepth']))])
    for b in range(nb):
        tail.append(['idle', b, None])
    sc['actors'].append(tail)
    # some plain async handlers are wrapped in the library's own @retry decorator (no retries): the bus's timeout must stop the wrapped
    # body as well
    if draw(st.integers(0, 3)) == 0:
        sc['handlers'] = [dict(h, kind='aretry', retry={'wait': 0.0, 'retries': 0}) if (h['kind'] == 'async' and not any(op[0] == 'raise' for op in h['prog']) and draw(st.booleans())) else h for h in sc['handlers']]
    return sc


def budget(tier):
    return {'examples': 6000 if tier == 'quick' else 120000, 'wall_s': 300 if tier == 'quick' else 3000, 'shrink_s': 60}


def strategy(tier):
    return _sc()


def nontrivial(F):
    return bool(oracles.c10_facts(F)['own_deadline_cancels'])


def classes(F):
    cl = common_classes(F)
    f = oracles.c10_facts(F)
    if f['own_deadline_cancels']:
        cl.append('cancelled-at-own-deadline')
    if f['ancestor_cancels']:
        cl.append('cancelled-by-awaiting-ancestor')
    for w in sorted(f['where']):
        cl.append('deadline-fell:' + w)
    if f['ties']:
        cl.append('exact-tie')
    if any(k == 'inf' for k in (F.sc.get('timeouts') or {}).values()):
        cl.append('infinite-timeout')
    if any(k for k in (F.sc.get('timeouts') or {}).values() if k != 'inf' and (k * 64) % 1 == 0 and (k * 16) % 1 == 0):
        cl.append('on-grid-timeout')
    return cl


def run_case(sc):
    return judge(sc, [oracles.c10], nontrivial, classes)
