"""C19 @retry makes the promised attempts with the promised waits.

Input property in virtual time: generated (retries, wait, backoff, timeout, retry_on) x per-attempt
script x caller-cancellation instant; oracle = reference model of call instants and final outcome,
plus model-free invariants on the observed attempt intervals.
"""
from __future__ import annotations

import asyncio

from hypothesis import strategies as st

from bvt.vloop import Hang, fresh_loop

ID = 'C19'
LEVEL = 'exploration'
RULE = (
    'Hypothesis-generated (retries 0-5, wait, backoff_factor, timeout, retry_on subset incl. None and the empty tuple, per-attempt script of '
    'success/listed/unlisted exception/overrun (an overrunning attempt may need 0.25-0.5 s to unwind when cut off), optional caller cancellation instant; in one case in three 1-2 further callers of the same '
    'decorated function with scripts of their own are in flight at the same time; in one case in six the call first queues for a single semaphore slot somebody else holds) run on the virtual-time loop; each call is '
    'compared with a reference model of call instants, waits, outcome and end time. Non-trivial = at least two '
    'attempts were made, or an attempt was cut off by the timeout, or a caller cancellation took effect; distinct by '
    'canonical JSON of the case.'
)
ASSUMPTIONS = [
    'virtual time: code between suspension points takes zero time',
    'all durations are dyadic rationals so float arithmetic is exact; cancellation instants are off the grid (no ties)',
    'a cut-off attempt raises TimeoutError inside the retry loop; when retry_on excludes TimeoutError both "retry" and '
    '"propagate TimeoutError" are accepted (the statement does not decide it)',
]


class EA(Exception):
    pass


class EB(Exception):
    pass


class EC(EA):
    pass


import itertools as _it

_UID = _it.count()

EXC = {'EA': EA, 'EB': EB, 'EC': EC, 'TO': TimeoutError, 'VE': ValueError}


def budget(tier):
    return {'examples': 24000 if tier == 'quick' else 400000, 'wall_s': 240 if tier == 'quick' else 2400, 'shrink_s': 30}


def q(lo, hi):
    return st.integers(lo, hi).map(lambda k: k / 8)


@st.composite
def _case(draw):
    retries = draw(st.integers(0, 5))
    wait = draw(q(0, 8))
    backoff = draw(st.sampled_from([1.0, 2.0, 1.5, 0.5, 3.0]))
    timeout = draw(q(1, 16))
    retry_on = draw(st.sampled_from([None, None, ['EA'], ['EA', 'EB'], ['EB'], ['TO'], ['EA', 'TO'], ['VE', 'EC'], []]))
    script = []
    for _ in range(retries + 2):
        kind = draw(st.sampled_from(['ok', 'EA', 'EA', 'EB', 'EC', 'TO', 'VE', 'over']))
        d = draw(q(0, 12))
        if kind == 'over':
            d = timeout + draw(q(1, 8))
        elif d >= timeout:
            d = max(0.0, timeout - 0.125)
        imm = draw(st.booleans()) if (d == 0 and kind != 'over') else False  # raise/return with no suspension point at all
        # an attempt that overruns may need time to unwind when it is cut off (cleanup awaited in `except CancelledError` / `finally`)
        u = draw(st.sampled_from([0, 0, 0.25, 0.5])) if kind == 'over' else 0
        script.append([kind, d, imm, u])
    cancel_at = draw(st.one_of(st.none(), st.none(), st.integers(0, 240).map(lambda k: k / 8 + 1 / 1024)))
    if script[0][0] == 'over' and script[0][3] and draw(st.booleans()):
        # aim the caller's cancellation at the window in which the first attempt is unwinding from its cut-off
        cancel_at = timeout + draw(st.sampled_from([1, 2, 3])) * script[0][3] / 4 + 1 / 1024
    c = {'retries': retries, 'wait': wait, 'backoff': backoff, 'timeout': timeout, 'retry_on': retry_on, 'script': script, 'cancel_at': cancel_at}
    if draw(st.integers(0, 5)) == 0:
        # the decorated function has a semaphore with a single slot and somebody else holds it for `hold` seconds: the judged call
        # queues for the slot first (acquisition timeout far away); a cancellation that arrives while it is queued must come out
        c['hold'] = draw(q(1, 24))
        if draw(st.booleans()):
            c['cancel_at'] = draw(st.integers(0, int(c['hold'] * 8) - 1)) / 8 + 1 / 1024
        c['lax'] = draw(st.booleans())
        return c
    # one case in three: further callers of the SAME decorated function are in flight at the same time, each with a script of its
    # own (no semaphore, so the calls are independent: attempt counts, waits and outcomes must not leak from one call to another)
    if draw(st.integers(0, 2)) == 0:
        others = []
        for _ in range(draw(st.integers(1, 2))):
            sc2 = []
            for _ in range(retries + 2):
                kind = draw(st.sampled_from(['ok', 'EA', 'EA', 'EB', 'EC', 'TO', 'VE', 'over']))
                d = draw(q(0, 12))
                if kind == 'over':
                    d = timeout + draw(q(1, 8))
                elif d >= timeout:
                    d = max(0.0, timeout - 0.125)
                sc2.append([kind, d, draw(st.booleans()) if (d == 0 and kind != 'over') else False])
            others.append({'start': draw(st.integers(0, 64)) / 8 + 1 / 4096, 'script': sc2})
        c['others'] = others
    return c


def strategy(tier):
    return _case()


def model(c, script=None, start=0.0, cancel_at='main'):
    """Reference model -> (call instants, set of acceptable outcomes, end time) ; outcome = ('ret',k) | ('exc',cls,k|None) | ('cancelled',)"""
    ro = None if c['retry_on'] is None else tuple(EXC[n] for n in c['retry_on'])
    ca = c['cancel_at'] if cancel_at == 'main' else cancel_at
    script = c['script'] if script is None else script

    def go(t, k, calls, cutoff_policy):
        # returns list of (calls, outcome, end)
        if ca is not None and ca < t:
            return [(calls, ('cancelled',), ca)]
        calls = calls + [t]
        kind, d, _imm = script[k][:3]
        u = script[k][3] if len(script[k]) > 3 and kind == 'over' else 0
        end = t + min(d, c['timeout'])
        if ca is not None and ca < end:
            # cancelled in the body; an overrunning attempt unwinds for u, unless its own deadline interrupts the unwinding
            return [(calls, ('cancelled',), min(ca + u, t + c['timeout']) if u else ca)]
        end += u
        if ca is not None and ca < end:
            return [(calls, ('cancelled',), ca)]  # cancelled while unwinding from the cut-off: the unwinding is interrupted
        t = end
        if kind == 'ok':
            return [(calls, ('ret', k), t)]
        exc = TimeoutError if kind == 'over' else EXC[kind]
        idx = None if kind == 'over' else k
        listed = ro is None or issubclass(exc, ro)
        branches = []
        if kind == 'over' and ro is not None and not listed:
            # ambiguous in the statement: accept both
            branches = [True, False]
        else:
            branches = [listed]
        res = []
        for retryable in branches:
            if not retryable:
                res.append((calls, ('exc', exc, idx), t))
            elif k < c['retries']:
                w = c['wait'] * (c['backoff'] ** k)
                if ca is not None and ca < t + w:
                    res.append((calls, ('cancelled',), ca))
                else:
                    res.extend(go(t + w, k + 1, calls, cutoff_policy))
            else:
                res.append((calls, ('exc', exc, idx), t))
        return res

    hold = c.get('hold') if start == 0.0 else None  # (cases with a held slot have the main caller only)
    if hold:
        if ca is not None and ca < hold:
            return [([], ('cancelled',), ca)]  # cancelled while queued for the slot: the function is never called
        start = hold
    return go(start, 0, [], None)


def run_impl(c):
    """-> {caller: {'starts','ends','raised','out','end'}}; caller 'T' is the main one, 'O0', 'O1' the concurrent others"""
    from bubus.helpers import retry

    callers = {'T': {'script': c['script'], 'start': 0.0, 'cancel_at': c['cancel_at']}}
    for n, o in enumerate(c.get('others') or []):
        callers[f'O{n}'] = {'script': o['script'], 'start': o['start'], 'cancel_at': None}
    rec = {t: {'starts': [], 'ends': [], 'raised': {}} for t in callers}
    res = {}
    ro = None if c['retry_on'] is None else tuple(EXC[n] for n in c['retry_on'])
    with fresh_loop() as loop:

        semkw = {}
        if c.get('hold'):
            semkw = dict(semaphore_limit=1, semaphore_name=f'bvt_c19_{id(c)}_{next(_UID)}', semaphore_lax=bool(c.get('lax')), semaphore_timeout=1000.0625)

        @retry(wait=0, retries=0, timeout=3600, **semkw)
        async def holder():
            await asyncio.sleep(c['hold'])

        @retry(wait=c['wait'], retries=c['retries'], timeout=c['timeout'], retry_on=ro, backoff_factor=c['backoff'], **semkw)
        async def f(tag, *, kw=None):
            r = rec[tag]
            script = callers[tag]['script']
            k = len(r['starts'])
            r['starts'].append(loop.time())
            kind, d, imm = script[k][:3] if k < len(script) else ('ok', 0, True)
            u = script[k][3] if k < len(script) and len(script[k]) > 3 and kind == 'over' else 0
            try:
                if not imm:
                    try:
                        await asyncio.sleep(d)
                    except asyncio.CancelledError:
                        if u:
                            await asyncio.sleep(u)  # cleanup that needs time (may itself be interrupted by a further cancellation)
                        raise
                if kind == 'ok':
                    return ('val', k, tag, kw)
                if kind == 'over':
                    return 'late'
                ex = EXC[kind](k)
                r['raised'][k] = ex
                raise ex
            finally:
                r['ends'].append(loop.time())

        async def one(tag):
            info = callers[tag]
            if info['start']:
                await asyncio.sleep(info['start'])
            t = asyncio.ensure_future(f(tag, kw='K' + tag))
            if info['cancel_at'] is not None:
                loop.call_at(info['cancel_at'], t.cancel)
            try:
                r = await t
                rec[tag]['out'] = ('ret', r)
            except asyncio.CancelledError:
                rec[tag]['out'] = ('cancelled',)
            except BaseException as e:  # noqa
                rec[tag]['out'] = ('exc', e)
            rec[tag]['end'] = loop.time()

        async def main():
            if c.get('hold'):
                hold_task = asyncio.ensure_future(holder())
                await asyncio.sleep(0)  # the holder takes the only slot first
                await asyncio.sleep(0)
            await asyncio.gather(*(one(t) for t in callers))
            if c.get('hold'):
                await hold_task
            n = {t: len(rec[t]['starts']) for t in callers}
            await asyncio.sleep(200)  # no further calls afterwards
            for t in callers:
                rec[t]['late_calls'] = len(rec[t]['starts']) - n[t]

        try:
            loop.run_until_complete(main())
        except Hang as e:
            res['hang'] = str(e)
    return callers, rec, res


def _judge_caller(c, tag, info, r):
    """violations for one caller against its own reference model"""
    viol = []
    starts, ends, raised, out = r['starts'], r['ends'], r['raised'], r['out']
    who = '' if tag == 'T' else f'[concurrent caller {tag}] '
    n = len(starts)
    # --- model-free invariants
    if n > c['retries'] + 1:
        viol.append(('C19.a', f'{who}{n} calls > retries+1={c["retries"] + 1}'))
    if r.get('late_calls'):
        viol.append(('C19.g', f'{who}{r["late_calls"]} further calls after the wrapper returned/raised'))
    for k in range(n - 1):
        if k < len(ends):
            gap = starts[k + 1] - ends[k]
            want = c['wait'] * (c['backoff'] ** k)
            if abs(gap - want) > 1e-9:
                viol.append(('C19.b', f'{who}wait before attempt {k + 2} was {gap}, promised {want}'))
                break
    for k in range(min(n, len(ends))):
        uk = info['script'][k][3] if k < len(info['script']) and len(info['script'][k]) > 3 and info['script'][k][0] == 'over' else 0
        if ends[k] - starts[k] > c['timeout'] + uk + 1e-9:
            viol.append(('C19.f', f'{who}attempt {k + 1} ran {ends[k] - starts[k]} > timeout {c["timeout"]} (+ {uk} unwinding)'))
            break
    # --- reference model
    accepted = model(c, info['script'], info['start'], info['cancel_at'])
    ok = False
    why = []
    for mcalls, mo, mend in accepted:
        if [round(x, 9) for x in starts] != [round(x, 9) for x in mcalls]:
            why.append(('C19.b', f'{who}call instants {starts} != model {mcalls}'))
            continue
        if mo[0] == 'ret':
            if not (out[0] == 'ret' and out[1] == ('val', mo[1], tag, 'K' + tag)):
                why.append(('C19.c', f'{who}expected return of attempt {mo[1] + 1}, got {out!r}'))
                continue
        elif mo[0] == 'cancelled':
            if out[0] != 'cancelled':
                why.append(('C19.g', f'{who}caller cancelled at {info["cancel_at"]} but wrapper outcome was {out!r}'))
                continue
        else:
            if out[0] != 'exc' or not isinstance(out[1], mo[1]):
                why.append(('C19.d' if (len(mcalls) <= c['retries']) else 'C19.e', f'{who}expected {mo[1].__name__} to propagate, got {out!r}'))
                continue
            if mo[2] is not None and out[1] is not raised.get(mo[2]):
                why.append(('C19.d' if (len(mcalls) <= c['retries']) else 'C19.e', f'{who}propagated exception is not the object raised by attempt {mo[2] + 1}'))
                continue
        if abs(r['end'] - mend) > 1e-9:
            why.append(('C19.c' if mo[0] == 'ret' else 'C19.e', f'{who}wrapper finished at {r["end"]}, model says {mend}'))
            continue
        ok = True
        break
    if not ok and why and not viol:
        viol.append(why[0])
    return viol, accepted


def run_case(c):
    viol = []
    classes = []
    callers, rec, res = run_impl(c)
    if 'hang' in res or any('out' not in r for r in rec.values()):
        return {'viol': [('C19.hang', f'wrapper never returned: {res.get("hang")}')], 'nontrivial': True, 'classes': ['hang'], 'hang': True}
    log = []
    accepted_main = None
    for tag, info in callers.items():
        v, accepted = _judge_caller(c, tag, info, rec[tag])
        viol.extend(v)
        if tag == 'T':
            accepted_main = accepted
        log += [f'{tag}: starts={rec[tag]["starts"]}', f'{tag}: ends={rec[tag]["ends"]}', f'{tag}: out={rec[tag]["out"]!r} end={rec[tag]["end"]}', f'{tag}: model={accepted}']
    starts, out = rec['T']['starts'], rec['T']['out']
    n = len(starts)
    cut = any(c['script'][k][0] == 'over' for k in range(min(n, len(c['script']))))
    if n >= 2:
        classes.append('retried')
    if cut:
        classes.append('cutoff')
    if out[0] == 'cancelled':
        classes.append('cancelled')
        ca = c['cancel_at']
        for k, t0 in enumerate(starts):
            sk = c['script'][k] if k < len(c['script']) else None
            if sk and sk[0] == 'over' and len(sk) > 3 and sk[3] and t0 + c['timeout'] <= ca < t0 + c['timeout'] + sk[3]:
                classes.append('cancelled-while-unwinding-from-the-cut-off')
    if out[0] == 'exc':
        classes.append('exhausted' if n == c['retries'] + 1 else 'unlisted-propagated')
    if out[0] == 'ret':
        classes.append('returned')
    if len(accepted_main) > 1:
        classes.append('ambiguous-cutoff-vs-retry_on')
    if c.get('hold'):
        classes.append('queued-for-a-semaphore-slot-first')
        if c['cancel_at'] is not None and c['cancel_at'] < c['hold']:
            classes.append('cancelled-while-queued-for-the-slot')
    if len(callers) > 1:
        classes.append(f'concurrent-callers={len(callers)}')
        # did two calls actually overlap in time?
        spans = [(rec[t]['starts'][0], rec[t]['end']) for t in callers if rec[t]['starts']]
        if any(a[0] < b[1] and b[0] < a[1] for i, a in enumerate(spans) for b in spans[i + 1 :]):
            classes.append('concurrent-calls-overlap')
    return {'viol': viol[:1] if viol else [], 'nontrivial': n >= 2 or cut or out[0] == 'cancelled', 'classes': classes, 'log': log}
