"""Shared scaffolding for the scenario-driven (Driver A) properties."""
from __future__ import annotations

from bvt.engine import fmt_trace, run_scenario
from bvt.facts import Facts


def judge(sc, oracles, nontrivial, classes, harness_check=None):
    out = run_scenario(sc)
    F = Facts(sc, out)
    viol = []
    for o in oracles:
        viol.extend(o(F))
    cl = list(classes(F)) if classes else []
    if out.get('hang'):
        cl.append('hang:' + str(out['hang'].get('kind')))
    res = {
        'viol': viol,
        'nontrivial': bool(nontrivial(F)),
        'classes': cl,
        'hang': bool(out.get('hang')),
        'log': fmt_trace(out) + [f'final {t}: {s["status"]} sig={s["sig"]} parent={s["parent"] and s["parent"][-6:]} id={s["id"][-6:]} path={s["path"]} ' + str([(r['h'], r['bus'], r['st'], r['err'], r['kids']) for r in s['results']]) for t, s in out.get('final', {}).items()],
        '_F': F,
    }
    return res


def common_classes(F: Facts):
    cl = []
    nb = F.nb
    cl.append(f'buses={nb}')
    if any(F.par.values()):
        cl.append('parallel-bus')
    if F.sc.get('fwd'):
        cl.append('forwarding')
    if any(r['k'] == 'aw-begin' for r in F.tr):
        cl.append('in-handler-await')
    if any(r['k'] == 'disp' and not isinstance(r['by'], str) for r in F.tr):
        cl.append('nested-dispatch')
    if any(r['k'] == 'exit' and r['how'] == 'raise' for r in F.tr):
        cl.append('handler-raised')
    if F.sc.get('warm'):
        cl.append('warm')
    if F.sc.get('wal'):
        cl.append('wal-bus')
        if any(r['k'] in ('disp',) and r.get('ok') and F.out.get('payload_of', {}).get(str(r['ev']), F.out.get('payload_of', {}).get(r['ev'])) in (1, 3) for r in F.tr):
            cl.append('wal:unserialisable-event-accepted')
    if F.sc.get('stops'):
        cl.append('stop-sub-family')
    if F.sc.get('shadow'):
        cl.append('second-bus-requested-with-a-taken-name')
    n = len(F.accepted)
    cl.append('events:' + ('1' if n <= 1 else '2-5' if n <= 5 else '6-20' if n <= 20 else '21+'))
    return cl


def max_queue_depth(F: Facts):
    """max number of events accepted on a bus and not yet started there, over the trace"""
    q = {}
    best = 0
    for r in F.tr:
        if r['k'] == 'enq-ok':
            q.setdefault(r['bus'], set()).add(r['ev'])
        elif r['k'] == 'enter':
            q.get(r['bus'], set()).discard(r['ev'])
        for s in q.values():
            best = max(best, len(s))
    return best


def mixed(own, tier, pid, need_watch=False, serial_only=False):
    """Thorough tier: besides the property's own generator profile, also draw scenarios from the profiles of the other
    scenario-driven properties, so that every oracle sees shapes its own profile does not emphasise. Only profiles on
    which the oracle is sound are mixed in (no firing timeouts, no stop(), no recursion beyond the guard)."""
    from hypothesis import strategies as st

    if tier != 'thorough':
        return own
    import importlib

    others = []
    for q in ('c01', 'c02', 'c04', 'c06', 'c08', 'c09'):
        if q == pid.lower():
            continue
        m = importlib.import_module(f'bvt.props.{q}')
        prof = getattr(m, 'P', None) or getattr(m, 'P_MAIN', None)
        if prof is None:
            continue
        if serial_only and prof.par:
            continue
        import copy

        from bvt.gen import scenario

        prof = copy.copy(prof)
        prof.deep_wild = False  # (recursion beyond the library's guard is the borrowing check's own business, if at all)
        prof.shadow = prof.fan = prof.hredisp = prof.fwdreplica = 0.0
        others.append(scenario(prof))

    def fix(sc):
        sc = dict(sc)
        if need_watch:
            sc['watch'] = True
        # borrowed shapes only: firing timeouts / cancellation clean-up belong to the profiles whose oracles handle them
        sc.pop('timeouts', None)
        sc['handlers'] = [{k: v for k, v in h.items() if k != 'cleanup'} for h in sc['handlers']]
        # ... and so do the special-purpose operations each profile added for its own property (re-dispatch of existing objects, replicas,
        # fan-out beyond the backlog limit, rebuilt events, one object on two buses, expect(), shadow buses, declared result types)
        sc['handlers'] = [dict(h, prog=[op for op in h['prog'] if op[0] not in ('hredisp', 'fwdreplica', 'fan')]) for h in sc['handlers']]
        acts = []
        for a in sc['actors']:
            ops = []
            for op in a:
                if op[0] in ('replay', 'expect') or (need_watch and op[0] == 'redisp'):
                    continue  # (the stability check excludes user re-dispatch of an event that may already have completed)
                if op[0] == 'disp' and len(op) > 3 and isinstance(op[3], dict) and 'also' in op[3]:
                    op = op[:3] + [{k: v for k, v in op[3].items() if k != 'also'}]
                ops.append(op)
            acts.append(ops or [['yield', 1]])
        sc['actors'] = acts
        for k in ('shadow', 'rtypes', 'stops', 'wal', 'payloads'):
            sc.pop(k, None)
        if sc.get('cap', 0) > 120:
            sc['cap'] = 120
        return sc

    if not others:
        return own
    return st.integers(0, 9).flatmap(lambda k: own if k < 6 else st.one_of(*others).map(fix))


def with_stop(base, one_in=5):
    """Scenarios of `base` in which, one time in `one_in`, some actor stops a bus (often with a handler in flight on it or with its run
    loop queued for the global lock). The scenario is marked sc['stops'] so that oracles can leave what stop() abandons unjudged."""
    from hypothesis import strategies as st

    @st.composite
    def _s(draw):
        sc = draw(base)
        if draw(st.integers(0, one_in - 1)) != 0:
            return sc
        sc = dict(sc)
        actors = [list(a) for a in sc['actors']]
        ai = draw(st.integers(0, len(actors) - 1))
        pos = draw(st.integers(min(1, len(actors[ai])), len(actors[ai])))
        pre = draw(st.sampled_from([None, 0.01, 0.05, 0.1, 0.11, 0.25]))
        # prefer a bus some handler is registered on / this actor dispatched to, so that the stop often lands on a busy bus
        used = [op[1] for op in actors[ai][:pos] if op[0] in ('disp', 'burst')] + [h['bus'] for h in sc['handlers']]
        bus = draw(st.sampled_from(used)) if used and draw(st.integers(0, 3)) else draw(st.integers(0, len(sc['buses']) - 1))
        ins = ([['sleep', pre]] if pre is not None else []) + [['stop', bus, draw(st.sampled_from([None, None, 0, 0.05, 0.25])), draw(st.integers(0, 3)) == 0]]
        actors[ai] = actors[ai][:pos] + ins + actors[ai][pos:]
        sc['actors'] = actors
        sc['stops'] = True
        return sc

    return _s()


def with_wal(base, one_in=6):
    """Scenarios of `base` in which, one time in `one_in`, some buses persist to a write-ahead log (wal_path; the anyio worker thread is
    replaced by a deterministic inline call) and some events carry a payload that cannot be serialised to JSON (a lone surrogate, a callable):
    persistence is best-effort and must never change delivery, completion or idleness."""
    from hypothesis import strategies as st

    @st.composite
    def _s(draw):
        sc = draw(base)
        if draw(st.integers(0, one_in - 1)) != 0:
            return sc
        sc = dict(sc)
        sc['buses'] = [dict(b, wal=draw(st.integers(0, 2)) != 0) for b in sc['buses']]
        if not any(b['wal'] for b in sc['buses']):
            sc['buses'][0]['wal'] = True
        sc['payloads'] = [{'txt': 'plain'}, {'txt': 'a\ud800b'}, {'blob': {'k': [1, None, 'x']}}, {'blob': '__callable__'}]

        def flag(op, pos):
            op = list(op)
            while len(op) <= pos:
                op.append({})
            op[pos] = dict(op[pos] or {}, pl=draw(st.sampled_from([0, 1, 1, 2, 3, 3])))
            return op

        sc['actors'] = [[flag(op, 3) if op[0] == 'disp' else (flag(op, 4) if op[0] == 'burst' else op) for op in a] for a in sc['actors']]
        sc['handlers'] = [dict(h, prog=[flag(op, 4) if op[0] == 'disp' else op for op in h['prog']]) for h in sc['handlers']]
        sc['wal'] = {'lat': draw(st.sampled_from([0, 0, 0.01]))}
        return sc

    return _s()
