"""C01 Exactly-once handler delivery per (event, bus, handler)."""
from hypothesis import strategies as st

from bvt import oracles
from bvt.gen import Profile, scenario
from bvt.props._scen import common_classes, judge

ID = 'C01'
LEVEL = 'exploration'
RULE = (
    'Hypothesis-generated whole-program scenarios (1-3 buses incl. parallel, forwarding, sync/async/method/classmethod/'
    'staticmethod handlers with class/string/wildcard patterns, one function on two buses, nested dispatch awaited '
    'now/later/never, raising handlers, 1-3 concurrent actors, re-dispatch of the same event object) run in virtual '
    'time; oracle = every (event,bus) acceptance x matching handler has exactly one entry and one terminal result. '
    'Non-trivial = some event matched >= 2 handlers AND (a nested dispatch, or >= 2 events queued at once, or a '
    're-dispatch happened); distinct by canonical JSON of the scenario.'
)
ASSUMPTIONS = [
    'virtual time (zero CPU time between suspension points); bus iteration order generated',
    'event timeouts fire in one scenario in six (events whose processing an awaiting, timed-out ancestor interrupted are left to C10); no capacity overflow, no stop(), no eviction below in-flight (own properties)',
    'same-handler recursion deeper than the 2-level guard is not generated here',
]

@st.composite
def _timeouts(draw):
    # one scenario in six has short event timeouts: a handler that times out must not make a later handler of the event go missing
    if draw(st.integers(0, 5)) != 0:
        return {}
    return {str(t): draw(st.sampled_from([0.13, 0.27, 0.41])) for t in range(4) if draw(st.booleans())}


P_MAIN = Profile(timeouts=_timeouts(), raises=0.2, raise_kinds=['VE', 'custom', 'KE', 'RT', 'chain', 'CE', 'CE', 'TO'], dual=0.15, actor_ops=['disp', 'disp', 'disp', 'dispany', 'sleep', 'await', 'await', 'yield', 'redisp', 'redisp', 'burst', 'replay'], maxdepth=[2, 2, 3], wild=0.3)


def budget(tier):
    return {'examples': 6000 if tier == 'quick' else 120000, 'wall_s': 300 if tier == 'quick' else 3000, 'shrink_s': 60}


def strategy(tier):
    from bvt.props._scen import mixed

    return mixed(scenario(P_MAIN), tier, ID)


def nontrivial(F):
    from bvt.props._scen import max_queue_depth

    multi = any(len(F.expected(b, e)) >= 2 for (b, e) in F.enq)
    nested = any(r['k'] == 'disp' and not isinstance(r['by'], str) and r.get('ok') for r in F.tr)
    redisp = any(r['k'] == 'redisp' and r.get('ok') for r in F.tr)
    return multi and (nested or redisp or max_queue_depth(F) >= 2)


def classes(F):
    cl = common_classes(F)
    if any(r['k'] == 'redisp' and r.get('ok') for r in F.tr):
        cl.append('redispatch')
        for r in F.tr:
            if r['k'] == 'redisp' and r.get('ok'):
                cl.append('redispatch:' + ('after-complete' if r['was_complete'] else r['status']))
    for r in F.tr:
        if r['k'] == 'disp' and r.get('replay_of') is not None and r.get('ok'):
            cl.append('rebuilt-event-dispatched' + (':bus-already-in-its-path' if r['bus'] in (r.get('path') or []) else ':new-bus'))
    if any(h.get('bus2') is not None for h in F.sc['handlers']):
        cl.append('dual-bus-handler')
    if any(h['pat'] == '*' for h in F.sc['handlers']):
        cl.append('wildcard')
    if F.sc.get('maxdepth', 0) >= 3:
        cl.append('depth3')
    return cl


def run_case(sc):
    return judge(sc, [oracles.c01], nontrivial, classes)
