"""C17 Write-ahead log has one faithful line per processed event (round trip + fault enumeration)."""
import datetime

from hypothesis import strategies as st

from bvt.engine import fmt_trace, run_scenario
from bvt.facts import Facts
from bvt.gen import Profile, scenario

ID = 'C17'
LEVEL = 'fault_enumeration'
RULE = (
    'Generated buses (serial and parallel_handlers) with wal_path (fresh temp dir per case), raising handlers, nested and forwarded events with payloads from a '
    'recursive strategy (unicode incl. U+2028/U+0085/emoji/quotes/newlines, nested containers, datetimes, extra '
    'fields, and occasionally a lone surrogate that cannot be serialised at all), virtual I/O latency, and a fault plan: the j-th off-loaded I/O call (open/write/close) raises OSError / ValueError / RuntimeError / UnicodeEncodeError '
    '(quick: drawn j; thorough: additionally every j of a pilot run for base scenarios), or the parent of the path is a '
    'file, or the path is a directory. Oracle without faults: per bus exactly one line per processed event, in the '
    'order the handlers of that bus finished, each written after the last handler exit, each a JSON object that '
    'model_validate_json()s back to the same id/type/parent/payload/extras with a path that is a prefix of the final '
    'path containing the bus. Under faults: delivery exactly once and completion unchanged, lines still valid and an '
    'ordered subset, an ERROR record logged per fault, later lines still appended. Non-trivial = >= 2 lines including '
    'a nested or forwarded event, or a fault fired; distinct by canonical JSON.'
)
ASSUMPTIONS = ['anyio worker threads are replaced by deterministic inline calls with generated latency', 'files are split on "\\n" only', 'ERROR records are counted: one per raising handler plus one per failed WAL write']

_leaf = st.one_of(st.none(), st.booleans(), st.integers(-5, 5), st.floats(allow_nan=False, allow_infinity=False, width=32), st.text(alphabet=st.sampled_from(list('ab"\\\n\r\t/ é \u0085\U0001F600\u0000')), max_size=5))
_json = st.recursive(_leaf, lambda ch: st.one_of(st.lists(ch, max_size=3), st.dictionaries(st.text(alphabet='ab "', max_size=3), ch, max_size=3)), max_leaves=6)


@st.composite
def _payload(draw):
    p = {}
    if draw(st.booleans()):
        p['blob'] = draw(_json)
    if draw(st.booleans()):
        p['txt'] = draw(st.text(alphabet=st.sampled_from(list('ab"\\\n\r é \u0085\U0001F600')), max_size=6))
    if draw(st.booleans()):
        p['when'] = datetime.datetime(2026, draw(st.integers(1, 12)), draw(st.integers(1, 28)), draw(st.integers(0, 23)), draw(st.integers(0, 59)), tzinfo=draw(st.sampled_from([datetime.UTC, None]))).isoformat()
    if draw(st.integers(0, 2)) == 0:
        p['xtra'] = draw(_json)
    if draw(st.integers(0, 3)) == 0:
        p['x_y'] = draw(st.lists(st.integers(0, 3), max_size=2))
    if draw(st.integers(0, 24)) == 0:
        p['txt'] = 'a\ud800b'  # a lone surrogate: the event cannot be serialised to JSON, the WAL write of it must fail harmlessly
    return p


P = Profile(par=0.2, fwd=0.4, maxdepth=[1, 2], wild=0.2, raises=0.12, raise_kinds=['VE', 'custom'], probe=True, max_actors=2, actor_ops=['disp', 'disp', 'dispany', 'sleep', 'await', 'burst'], max_actor_ops=5, durs=[0.01, 0.05, 0.1], hist=[None], cap=40, burst=[2, 3], warm=[False])


@st.composite
def _case(draw):
    sc = draw(scenario(P))
    nb = len(sc['buses'])
    for b in sc['buses']:
        b['wal'] = draw(st.integers(0, 3)) != 0
    if not any(b['wal'] for b in sc['buses']):
        sc['buses'][0]['wal'] = True
    sc['payloads'] = draw(st.lists(_payload(), min_size=1, max_size=4))
    npl = len(sc['payloads'])
    for a in sc['actors']:
        for op in a:
            if op[0] == 'disp':
                while len(op) < 4:
                    op.append({})
                op[3] = dict(op[3] or {}, pl=draw(st.integers(0, npl - 1)))
            elif op[0] == 'burst':
                while len(op) < 5:
                    op.append({})
                op[4] = dict(op[4] or {}, pl=draw(st.integers(0, npl - 1)))
    for h in sc['handlers']:
        for op in h['prog']:
            if op[0] == 'disp':
                while len(op) < 5:
                    op.append({})
                op[4] = dict(op[4] or {}, pl=draw(st.integers(0, npl - 1)))
    kind = draw(st.sampled_from([None, None, 'oserror', 'oserror', 'parent_is_file', 'path_is_dir']))
    wal = {'lat': draw(st.sampled_from([0, 0.01, 0.05]))}
    if kind == 'oserror':
        wal.update(fault_kind='oserror', fault=draw(st.integers(0, 30)), fault_exc=draw(st.sampled_from(['OSError', 'OSError', 'ValueError', 'RuntimeError', 'UnicodeEncodeError'])))
    elif kind:
        wal.update(fault_kind=kind, fault_bus=draw(st.sampled_from([i for i, b in enumerate(sc['buses']) if b['wal']])))
    sc['wal'] = wal
    return sc


def strategy(tier):
    return _case()


def budget(tier):
    return {'examples': 3000 if tier == 'quick' else 50000, 'wall_s': 400 if tier == 'quick' else 3000, 'shrink_s': 60}


BASE = {
    'buses': [{'par': False, 'hist': None, 'rank': 1, 'wal': True}, {'par': False, 'hist': None, 'rank': 2, 'wal': True}], 'fwd': [[0, 1, '*']],
    'handlers': [{'bus': 0, 'pat': '*', 'kind': 'sync', 'prog': [], 'ret': 'none', 'probe': True}, {'bus': 1, 'pat': '*', 'kind': 'sync', 'prog': [], 'ret': 'none', 'probe': True},
                 {'bus': 0, 'pat': 0, 'kind': 'async', 'prog': [['sleep', 0.05], ['disp', 0, 1, 'await', {'pl': 1}], ['disp', 1, 1, 'ff', {'pl': 0}]], 'ret': 'idx'},
                 {'bus': 1, 'pat': 1, 'kind': 'async', 'prog': [['sleep', 0.01]], 'ret': 'idx'}],
    'actors': [[['disp', 0, 0, {'pl': 0}], ['disp', 1, 0, {'pl': 1}], ['sleep', 0.2], ['disp', 0, 1, {'pl': 0}], ['await', 0]]],
    'payloads': [{'blob': {'a ': [1, None, 'x\n"']}, 'txt': 'é\u0085', 'xtra': [1, {'b': 2}]}, {'when': '2026-03-04T05:06:00+00:00', 'x_y': [1]}],
    'maxdepth': 2, 'cap': 40, 'warm': False,
}


def enumerate_cases(tier, seed):
    pilot = dict(BASE, wal={'lat': 0.01})
    po = run_scenario(pilot)
    n = po['wal']['calls']
    for lat in ([0.01] if tier == 'quick' else [0, 0.01, 0.05]):
        for j in range(n + 1):
            yield dict(BASE, wal={'lat': lat, 'fault_kind': 'oserror', 'fault': j})


def run_case(sc):
    out = run_scenario(sc)
    F = Facts(sc, out)
    wal = out.get('wal') or {}
    viol = []
    tr = out['trace']
    hang = out.get('hang')
    cfg = sc['wal']
    # events whose payload cannot be serialised (lone surrogate): every WAL bus that processes them logs an error and writes no line
    bad_pl = {i for i, p in enumerate(sc.get('payloads') or []) if isinstance(p.get('txt'), str) and '\ud800' in p['txt']}
    unserial = {int(t) for t, pi in (out.get('payload_of') or {}).items() if pi in bad_pl}
    faults = wal.get('faults') or []
    persistent = cfg.get('fault_kind') in ('parent_is_file', 'path_is_dir')
    cl = ['fault:' + str(cfg.get('fault_kind')), f'lat={cfg.get("lat")}']
    total_lines = 0
    nested_or_fwd = False
    unserial_pairs = []
    if hang:
        viol.append(('C17.d', f'run did not reach quiescence: {hang}'))
    # processing order per bus = order in which the handlers of that bus finished for each event
    for bi, b in enumerate(sc['buses']):
        if not b.get('wal'):
            continue
        name = F.bname[bi]
        entry = (wal.get('buses') or {}).get(name, {'lines': [], 'path_exists': False})
        lines = entry['lines']
        total_lines += len(lines)
        finished = []  # (idx of last handler exit, ev)
        for (bb, ev), idxs in F.enq.items():
            if bb != name:
                continue
            exp = F.expected(name, ev)
            ex = [x for hi in exp for x in F.exits.get((name, ev, hi), [])]
            if exp and len(ex) >= len(exp):
                finished.append((max(ex), ev))
        finished.sort()
        n_unserial = len([ev for _i, ev in finished if ev in unserial])
        unserial_pairs.append(0 if (persistent and cfg.get('fault_bus') == bi) else n_unserial)  # (a persistently failing bus is counted below)
        finished = [(i, ev) for i, ev in finished if ev not in unserial]  # no line can be written for them
        order = [ev for _i, ev in finished]
        last_exit = {ev: i for i, ev in finished}
        ids = [ln.get('ev') for ln in lines]
        bus_faulted = persistent and cfg.get('fault_bus') == bi
        for ln in lines:
            if not ln.get('ok_json'):
                viol.append(('C17.c', f'{name}: a WAL line is not a JSON object: {ln.get("err")}'))
                continue
            if ln.get('unknown'):
                viol.append(('C17.c', f'{name}: WAL line for unknown event tag {ln.get("ev")}'))
                continue
            if ln.get('validate_err'):
                viol.append(('C17.c', f'{name}: WAL line of event {ln["ev"]} does not validate back: {ln["validate_err"]}'))
                continue
            if ln.get('diffs'):
                viol.append(('C17.c', f'{name}: WAL line of event {ln["ev"]} differs from the event after the round trip: {ln["diffs"]}'))
            p, fp = ln.get('path') or [], ln.get('final_path') or []
            if p != fp[: len(p)] or name not in p:
                viol.append(('C17.c', f'{name}: WAL line of event {ln["ev"]} has path {p}; final path {fp}'))
            if ln['ev'] in F.children or F.parent.get(ln['ev'], ('A',))[0] != 'A' or len(fp) > 1:
                nested_or_fwd = True
        if len(set(ids)) != len(ids):
            viol.append(('C17.a', f'{name}: duplicate WAL lines: {ids}'))
        if any(i not in order for i in ids if i is not None) and not hang:
            viol.append(('C17.a', f'{name}: WAL has lines {ids} for events not processed by this bus (processed: {order})'))
        done_t = {ev: tr[i]['t'] for i, ev in finished}

        def in_order(seq):
            # processing order = order in which the handlers of the bus finished; events that finished at the same virtual
            # instant (overlapping inline processing on a parallel_handlers bus) may appear in either order
            ts = [done_t[e] for e in seq if e in done_t]
            return all(a <= b for a, b in zip(ts, ts[1:]))

        if not faults and not bus_faulted:
            if not hang and (sorted(x for x in ids if x is not None) != sorted(order) or len(ids) != len(order) or not in_order(ids)):
                viol.append(('C17.a', f'{name}: WAL lines {ids} != events processed by the bus in order of handler completion {order}'))
        else:
            if not in_order([i for i in ids if i in order]):
                viol.append(('C17.a', f'{name}: WAL lines {ids} are not in processing order {order}'))
            nf = len([f for f in faults]) if not bus_faulted else len(order)
            if not hang and len(order) - len(set(ids) & set(order)) > nf:
                viol.append(('C17.d', f'{name}: {len(order) - len(set(ids) & set(order))} processed events have no WAL line but only {nf} fault(s) fired (lines {ids}, processed {order})'))
        # written after the handlers
        for r in tr:
            if r['k'] == 'io' and r.get('op') == 'write' and r.get('ev') in last_exit:
                pass
        if entry.get('path_exists') and entry.get('ends_with_newline') is False:
            viol.append(('C17.c', f'{name}: WAL file does not end with a newline'))
    # C17.b each write happens after the last handler exit of that (event, bus): writes are issued per bus in order; check globally per event occurrence
    writes = [r for r in tr if r['k'] in ('io', 'io-fault') and r.get('op') == 'write']
    for r in writes:
        ev = r.get('ev')
        if ev is None:
            continue
        # some bus must have finished all its handlers for this event before this write and not yet have a write accounted
        ok = False
        for (bb, e), idxs in F.enq.items():
            if e != ev or not sc['buses'][F.bidx[bb]].get('wal'):
                continue
            exp = F.expected(bb, ev)
            ex = [x for hi in exp for x in F.exits.get((bb, ev, hi), [])]
            if len(ex) >= len(exp) and (not ex or max(ex) < r['i']):
                ok = True
        if not ok:
            viol.append(('C17.b', f'WAL write for event {ev} at idx {r["i"]} happened before the handlers of any WAL bus had finished for it'))
    # C17.d processing unaffected
    if not hang:
        for (bus, ev), idxs in F.enq.items():
            for hi in sorted(F.expected(bus, ev)):
                n = len(F.enters.get((bus, ev, hi), []))
                if n != 1:
                    viol.append(('C17.d', f'event {ev} on {bus}: handler h{hi} ran {n} times (faults: {faults}, {cfg.get("fault_kind")})'))
        from bvt.oracles import all_complete

        viol.extend(all_complete(F, 'C17.d'))
        nfail = len(faults)
        if persistent:
            bi = cfg.get('fault_bus')
            nfail = len({ev for (bb, ev) in F.enq if bb == F.bname[bi]})
        nraise = sum(1 for r in tr if r['k'] == 'exit' and r['how'] == 'raise')  # every raising handler is logged at ERROR too
        nfail += sum(unserial_pairs)  # one failed (unserialisable) write per WAL bus that processed such an event
        if wal.get('errors_logged', 0) < nfail + nraise:
            viol.append(('C17.d', f'{nfail} WAL write(s) failed (and {nraise} handlers raised) but only {wal.get("errors_logged", 0)} ERROR record(s) were logged'))
        if not faults and not persistent and wal.get('errors_logged', 0) > nraise + sum(unserial_pairs):
            viol.append(('C17.d', f'{wal.get("errors_logged")} ERROR record(s) logged although no fault was injected and only {nraise} handlers raised'))
    if faults:
        cl.append('fault-fired:' + faults[0]['op'])
        cl.append('fault-exc:' + str(cfg.get('fault_exc', 'OSError')))
    if sum(unserial_pairs):
        cl.append('unserialisable-payload')
    if persistent:
        cl.append('fault-fired:persistent')
    cl.append('lines:' + ('0' if total_lines == 0 else '1' if total_lines == 1 else '2-5' if total_lines <= 5 else '6+'))
    if nested_or_fwd:
        cl.append('nested-or-forwarded-line')
    nontrivial = (total_lines >= 2 and nested_or_fwd) or bool(faults) or (persistent and bool(F.enq)) or bool(sum(unserial_pairs))
    # keep first violation per clause
    seen, outv = set(), []
    for v in viol:
        if v[0] not in seen:
            seen.add(v[0])
            outv.append(v)
    return {'viol': outv, 'nontrivial': nontrivial, 'classes': cl, 'hang': bool(hang), 'log': fmt_trace(out) + [repr(wal)[:3000]]}
