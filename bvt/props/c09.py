"""C09 Parent/child lineage and handler context are attributed correctly."""
from bvt import oracles
from bvt.gen import Profile, scenario
from bvt.props._scen import common_classes, judge

ID = 'C09'
LEVEL = 'exploration'
RULE = (
    'Generated trees across 1-3 buses with parallel handlers that dispatch concurrently, nested awaits, forwarding of '
    'roots and children, explicit event_parent_id on some dispatches, actor dispatches right after awaits return, and '
    'event.event_bus reads before and after forwards; in one scenario in twelve a handler fans out 52-75 children so that the bus refuses some '
    '(back-pressure) and, optionally, waits and dispatches the refused objects again; some handlers dispatch an EXISTING event object (one that ordinary code dispatched earlier, never an ancestor) again, to a bus it has or has not visited; some forward a replica (model_validate of its dump: same event_id, other object) of the event they are handling. Oracle vs the harness own dispatch records: parent id = event of '
    'the dispatching handler; listed exactly once among that handler result children and nowhere else; actor events '
    'have no parent; explicit parents survive; no event is its own parent/child; event_bus is the running bus. '
    'Non-trivial = >= 1 handler dispatch and (a parallel bus, or >= 2 buses, or forwarding); distinct by canonical JSON.'
)
ASSUMPTIONS = ['virtual time', 'harness lineage = which handler invocation called dispatch']

P = Profile(fwdreplica=0.1, hredisp=0.12, fan=0.08, par=0.4, fwd=0.5, xp=0.12, readbus=0.2, actor_ops=['disp', 'disp', 'dispany', 'sleep', 'await', 'yield', 'burst'], maxdepth=[2, 3], wild=0.25, raises=0.1, dual=0.1)


def budget(tier):
    return {'examples': 6000 if tier == 'quick' else 120000, 'wall_s': 300 if tier == 'quick' else 3000, 'shrink_s': 60}


def strategy(tier):
    from bvt.props._scen import mixed

    return mixed(scenario(P), tier, ID)


def nontrivial(F):
    nested = any(r['k'] == 'disp' and not isinstance(r['by'], str) and r.get('ok') for r in F.tr)
    return nested and (any(F.par.values()) or F.nb >= 2 or bool(F.sc.get('fwd')))


def classes(F):
    cl = common_classes(F)
    if any(r['k'] == 'readbus' for r in F.tr):
        cl.append('event_bus-read')
    if any(r['k'] == 'disp' and r.get('xp') for r in F.tr):
        cl.append('explicit-parent')
    if any(r['k'] == 'disp' and not isinstance(r['by'], str) and r.get('ok') is False for r in F.tr):
        cl.append('in-handler-dispatch-refused')
    if any(r['k'] == 'disp' and r.get('rep') and r.get('ok') for r in F.tr):
        cl.append('handler-forwards-a-replica-of-its-own-event')
    for r in F.tr:
        if r['k'] == 'disp' and r.get('hre') and r.get('ok'):
            cl.append('existing-object-dispatched-again-by-a-handler' + (':bus-already-in-path' if r.get('in_path') else ':new-bus'))
    if any(r['k'] == 'disp' and r.get('again') and r.get('ok') for r in F.tr):
        cl.append('refused-child-dispatched-again')
    # two handlers of one event in flight together on a parallel bus, both dispatching
    for (b, e), _ in F.enq.items():
        if F.par.get(b):
            hs = {tuple(r['by']) for r in F.tr if r['k'] == 'disp' and not isinstance(r['by'], str) and r['by'][0] == b and r['by'][1] == e}
            if len(hs) >= 2:
                cl.append('parallel-siblings-both-dispatch')
                break
    return cl


def run_case(sc):
    return judge(sc, [oracles.c09], nontrivial, classes)
