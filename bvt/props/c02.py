"""C02 Per-bus FIFO processing order."""
from bvt import oracles
from bvt.gen import Profile, scenario
from bvt.props._scen import common_classes, judge, max_queue_depth

ID = 'C02'
LEVEL = 'exploration'
RULE = (
    'Generated scenarios with bursts so that queues hold >= 2 events while handlers run, warm/cold buses, forwarding, '
    'in-handler awaits; a passive probe handler on every bus marks the start of each event. Oracle: for every pair '
    'enqueued e1 < e2 on a bus, e2 may start first only if at that instant a handler is suspended awaiting e2 or an '
    'ancestor of e2; on a serial bus no event starts while a handler of another event on that bus runs un-suspended. '
    'A quarter of the cases come from a second profile (always timeouts, half of the buses parallel, mostly awaited children) and a small '
    'enumerated family (144 scenarios) covers the shape "awaiter cut off by its timeout while two handlers of the awaited event are in flight on a parallel bus". '
    'Non-trivial = some bus had >= 2 accepted-but-not-started events at once; distinct by canonical JSON.'
)
ASSUMPTIONS = ['virtual time; harness-side lineage (who dispatched what) is used, not event_children', 'a handler cut off by a timeout counts as running until its coroutine has finished unwinding', 'no capacity overflow; stop() only in a dedicated sub-family, where the stopped bus itself is not judged']

from hypothesis import strategies as _st


@_st.composite
def _timeouts(draw):
    # a quarter of the scenarios: handlers are cut off by event timeouts and need time to unwind; the bus must not move on meanwhile
    if draw(_st.integers(0, 3)) != 0:
        return {}
    return {str(t): draw(_st.sampled_from([0.13, 0.27, 0.41])) for t in range(4) if draw(_st.booleans())}


P = Profile(timeouts=_timeouts(), cleanup=0.3, probe=True, actor_ops=['disp', 'burst', 'burst', 'dispany', 'sleep', 'await', 'yield'], max_actor_ops=5, raises=0.05, maxdepth=[2], wild=0.2, fwd=0.4)


def budget(tier):
    return {'examples': 6000 if tier == 'quick' else 120000, 'wall_s': 300 if tier == 'quick' else 3000, 'shrink_s': 60}


def strategy(tier):
    from bvt.props._scen import mixed

    from bvt.props._scen import with_stop

    # one case in six: an actor stops one of the buses (possibly while its run loop is queued for the global lock); the order and
    # seriality of the buses that were NOT stopped must be unaffected
    return _st.integers(0, 5).flatmap(lambda k: scenario(P_CUT) if k == 0 else (with_stop(scenario(P_STOP), 1) if k == 1 else mixed(scenario(P), tier, ID)))


@_st.composite
def _timeouts_always(draw):
    to = {str(t): draw(_st.sampled_from([0.13, 0.27, 0.41])) for t in range(4) if draw(_st.integers(0, 3))}
    return to or {'0': 0.27}


# A second profile for one deep shape: a handler on a serial bus awaits an event that a parallel_handlers bus processes inline, and is
# then cut off by its timeout while several handlers of that event are in flight; whatever those handlers do afterwards must not make
# a serial bus start a later event while an earlier one is being handled.
P_CUT = Profile(timeouts=_timeouts_always(), cleanup=0.15, probe=True, min_buses=2, max_buses=3, par=0.5, min_handlers=2, max_handlers_per_level=3,
                actor_ops=['disp', 'disp', 'burst', 'sleep'], max_actor_ops=5, raises=0.0, maxdepth=[2], wild=0.2, fwd=0.15, sync=0.1,
                modes=['await', 'await', 'await', 'later'], ops=['sleep', 'sleep', 'disp', 'disp', 'disp', 'awaitall'], durs=[0.05, 0.1, 0.25, 0.5])


def enumerate_cases(tier, seed):
    """A small enumerated family for the shape P_CUT aims at (it needs five things to line up, random generation reaches it about once
    in a thousand scenarios): handler h0 on serial bus 0 awaits a child that parallel bus 1 processes inline with two handlers, h0 is cut
    off by its timeout; the slower handler of the child would, if it survived, dispatch and await a grandchild on a serial bus that
    is by then in the middle of another event."""
    import itertools

    for T0, extra, target, warm, ranks in itertools.product((0.13, 0.27, 0.41), (0.05, 0.2), (2, 0), (True, False), itertools.permutations((1, 2, 3))):
        yield {
            'buses': [{'par': False, 'hist': None, 'rank': ranks[0]}, {'par': True, 'hist': None, 'rank': ranks[1]}, {'par': False, 'hist': None, 'rank': ranks[2]}],
            'fwd': [],
            'handlers': [{'bus': i, 'pat': '*', 'kind': 'sync', 'prog': [], 'ret': 'none', 'probe': True} for i in range(3)]
            + [
                {'bus': 0, 'pat': 0, 'kind': 'async', 'prog': [['disp', 1, 1, 'await']], 'ret': 'idx'},
                {'bus': 1, 'pat': 1, 'kind': 'async', 'prog': [['sleep', 1.0]], 'ret': 'idx'},
                {'bus': 1, 'pat': 1, 'kind': 'async', 'prog': [['sleep', T0 + extra], ['disp', target, 2, 'await']], 'ret': 'idx'},
                {'bus': target, 'pat': 2, 'kind': 'async', 'prog': [['sleep', 0.05]], 'ret': 'idx'},
                {'bus': target, 'pat': 3, 'kind': 'async', 'prog': [['sleep', 1.0]], 'ret': 'idx'},
            ],
            'actors': [[['disp', 0, 0], ['sleep', 0.01], ['disp', target, 3], ['disp', target, 3]]],
            'maxdepth': 2, 'cap': 40, 'warm': warm, 'timeouts': {'0': T0},
        }


P_STOP = Profile(probe=True, min_buses=2, max_buses=3, actor_ops=['disp', 'burst', 'burst', 'dispany', 'sleep', 'await', 'yield'], max_actor_ops=5, raises=0.05, maxdepth=[2], wild=0.2, fwd=0.2,
                 modes=['await', 'await', 'later', 'ff'], durs=[0.05, 0.1, 0.25, 0.5, 1.0])


def nontrivial(F):
    return max_queue_depth(F) >= 2


def classes(F):
    cl = common_classes(F)
    d = max_queue_depth(F)
    cl.append('queue-depth:' + ('0-1' if d < 2 else '2-4' if d < 5 else '5+'))
    # permitted reorderings actually exercised
    inv = 0
    for bus in {b for (b, _e) in F.enq}:
        evs = sorted((idxs[0], ev) for (b, ev), idxs in F.enq.items() if b == bus and (b, ev) in F.first_enter)
        for a in range(len(evs)):
            for c in range(a + 1, len(evs)):
                if F.first_enter[(bus, evs[c][1])] < F.first_enter[(bus, evs[a][1])]:
                    inv += 1
    if inv:
        cl.append('permitted-queue-jump-seen')
    # an awaiting handler was cut off by its timeout while >= 2 handlers of the awaited event were in flight on a parallel bus
    for (b, e, h), xs in F.exits.items():
        for x in xs:
            if F.tr[x]['how'] == 'cancelled':
                aw = F.awaiting_at((b, e, h), x - 0.5)
                # (the child's handlers are cancelled first, so their exit records precede the awaiter's at the same instant)
                cut = [m for m, ys in F.exits.items() if m[1] == aw and F.par.get(m[0]) and any(F.tr[y]['how'] == 'cancelled' and F.tr[y]['t'] == F.tr[x]['t'] for y in ys)]
                if aw is not None and len(cut) >= 2:
                    cl.append('awaiter-timed-out-with-parallel-handlers-of-the-child-in-flight')
    return cl


def classify(sc, out, v):
    from bvt import findings

    if v[0] == 'C02.b' and len(v) > 2 and findings.f14_overlap(out['_F'], v[2]['idx'], v[2]['starting'], v[2]['running'][1]):
        return findings.SIG_F14
    return None


def run_case(sc):
    return judge(sc, [oracles.c02], nontrivial, classes)
