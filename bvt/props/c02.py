"""C02 Per-bus FIFO processing order."""
from bvt import oracles
from bvt.gen import Profile, scenario
from bvt.props._scen import common_classes, judge, max_queue_depth

ID = 'C02'
LEVEL = 'exploration'
RULE = (
    'Generated scenarios with bursts so that queues hold >= 2 events while handlers run, warm/cold buses, forwarding, '
    'in-handler awaits; a passive probe handler on every bus marks the start of each event. Oracle: for every pair '
    'enqueued e1 < e2 on a bus, e2 may start first only if at that instant a handler is suspended awaiting e2 or an '
    'ancestor of e2; on a serial bus no event starts while a handler of another event on that bus runs un-suspended. '
    'Non-trivial = some bus had >= 2 accepted-but-not-started events at once; distinct by canonical JSON.'
)
ASSUMPTIONS = ['virtual time; harness-side lineage (who dispatched what) is used, not event_children', 'a handler cut off by a timeout counts as running until its coroutine has finished unwinding', 'no stop / capacity overflow']

from hypothesis import strategies as _st


@_st.composite
def _timeouts(draw):
    # a quarter of the scenarios: handlers are cut off by event timeouts and need time to unwind; the bus must not move on meanwhile
    if draw(_st.integers(0, 3)) != 0:
        return {}
    return {str(t): draw(_st.sampled_from([0.13, 0.27, 0.41])) for t in range(4) if draw(_st.booleans())}


P = Profile(timeouts=_timeouts(), cleanup=0.3, probe=True, actor_ops=['disp', 'burst', 'burst', 'dispany', 'sleep', 'await', 'yield'], max_actor_ops=5, raises=0.05, maxdepth=[2], wild=0.2, fwd=0.4)


def budget(tier):
    return {'examples': 6000 if tier == 'quick' else 120000, 'wall_s': 300 if tier == 'quick' else 3000, 'shrink_s': 60}


def strategy(tier):
    from bvt.props._scen import mixed

    return mixed(scenario(P), tier, ID)


def nontrivial(F):
    return max_queue_depth(F) >= 2


def classes(F):
    cl = common_classes(F)
    d = max_queue_depth(F)
    cl.append('queue-depth:' + ('0-1' if d < 2 else '2-4' if d < 5 else '5+'))
    # permitted reorderings actually exercised
    inv = 0
    for bus in {b for (b, _e) in F.enq}:
        evs = sorted((idxs[0], ev) for (b, ev), idxs in F.enq.items() if b == bus and (b, ev) in F.first_enter)
        for a in range(len(evs)):
            for c in range(a + 1, len(evs)):
                if F.first_enter[(bus, evs[c][1])] < F.first_enter[(bus, evs[a][1])]:
                    inv += 1
    if inv:
        cl.append('permitted-queue-jump-seen')
    return cl


def classify(sc, out, v):
    from bvt import findings

    if v[0] == 'C02.b' and len(v) > 2 and findings.f14_overlap(out['_F'], v[2]['idx'], v[2]['starting'], v[2]['running'][1]):
        return findings.SIG_F14
    return None


def run_case(sc):
    return judge(sc, [oracles.c02], nontrivial, classes)
