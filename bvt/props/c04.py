"""C04 In-handler await of a child never deadlocks and returns it complete."""
from bvt import oracles
from bvt.gen import Profile, scenario
from bvt.props._scen import common_classes, judge

ID = 'C04'
LEVEL = 'exploration'
RULE = (
    'Generated nesting to depth 3 with the awaited child on the own or another bus, 0-3 yields or a sleep between '
    'dispatch and await (mode later + awaitall), other events queued on every bus, forwarding of the child, warm and '
    'cold target buses, parallel buses, bounded histories smaller than the fan-out (awaited children evicted while queued), '
    'the same wildcard handler nested through its own awaited children deep enough to trip the recursion guard; '
    'event_timeout=None. Oracle at every in-handler await return: the child and all '
    'harness-known accepted descendants are complete; no handler is still blocked in an await at the stall horizon. '
    'Non-trivial = an in-handler await targeted another bus, or the handler yielded/slept between dispatch and await, '
    'or other events were queued at the await; distinct by canonical JSON.'
)
ASSUMPTIONS = ['virtual time; CPU-time dependent races (real duration of 1000 zero-sleeps) are not explored', 'event_timeout=None so the "unless cancelled by its timeout" clause is not in play']

P = Profile(shadow=0.1, deep_wild=True, hist=[None, None, 50, 2, 3, 5], raises=0.1, actor_ops=['disp', 'disp', 'burst', 'dispany', 'sleep', 'await', 'yield'], maxdepth=[2, 3], wild=0.15, fwd=0.3, min_buses=1, max_buses=3, modes=['await', 'await', 'later', 'later', 'ff'], ops=['sleep', 'yield', 'yield', 'disp', 'disp', 'disp', 'awaitall', 'awaitall'], par=0.15)


def budget(tier):
    return {'examples': 6000 if tier == 'quick' else 120000, 'wall_s': 300 if tier == 'quick' else 3000, 'shrink_s': 60}


def strategy(tier):
    from bvt.props._scen import mixed, with_wal

    # one scenario in six: some buses persist to a WAL and some events cannot be serialised - best-effort persistence of an
    # inline-processed child must not reach the handler that awaits it
    return with_wal(mixed(scenario(P), tier, ID), 6)


def _kinds(F):
    out = set()
    for me, ivs in F.awaits.items():
        for b, e, tag in ivs:
            buses = {bb for (bb, ev) in F.enq if ev == tag}
            if buses - {me[0]}:
                out.add('other-bus')
            # yielded between dispatch and await?
            d = next((r for r in F.tr if r['k'] == 'disp' and r.get('ev') == tag), None)
            if d is not None and (d.get('mode') == 'later'):
                if any(r['k'] == 'mark' and r['bus'] == me[0] and r['ev'] == me[1] and r['h'] == me[2] and d['i'] < r['i'] < b and F.tr[r['i']]['t'] >= d['t'] for r in F.tr[d['i']:b]):
                    out.add('suspended-before-await')
            # other events queued at the await
            queued = set()
            for r in F.tr[:b]:
                if r['k'] == 'enq-ok':
                    queued.add((r['bus'], r['ev']))
                elif r['k'] == 'enter':
                    queued.discard((r['bus'], r['ev']))
            if any(not F.is_desc(ev, tag) for (_bb, ev) in queued):
                out.add('others-queued')
            if F.par.get(me[0]):
                out.add('on-parallel-bus')
    return out


def nontrivial(F):
    return bool(_kinds(F) & {'other-bus', 'suspended-before-await', 'others-queued'})


def classes(F):
    cl = common_classes(F) + ['await:' + k for k in sorted(_kinds(F))]
    # the library's own recursion guard refused a handler somewhere (same handler nested > 2 levels through awaited children)
    if any(r['err'] == 'RuntimeError' and r['errkey'] is None for s in F.final.values() for r in s['results']):
        cl.append('recursion-guard-tripped')
    return cl


def classify(sc, out, v):
    from bvt import findings

    if v[0] == 'C04.a' and len(v) > 2 and findings.f14_await_incomplete(out['_F'], v[2]['idx'], v[2]['by'], v[2]['ev']):
        return findings.SIG_F14
    return None


def run_case(sc):
    return judge(sc, [oracles.c04], nontrivial, classes)
