"""C16 stop() and loop shutdown terminate the bus promptly (fault enumeration over crash points)."""
from hypothesis import strategies as st

from bvt.engine import fmt_trace, run_scenario
from bvt.facts import Facts
from bvt.gen import Profile, scenario

ID = 'C16'
LEVEL = 'fault_enumeration'
EXHAUSTIVE = False
RULE = (
    'A deterministic virtual-time scenario (idle bus, backlog, handler mid-flight, handler awaiting a child on another '
    'bus, forwarding, handlers running longer than the 15 s slow-handler monitor, handlers wrapped in the library\'s @retry decorator with attempts left, actors that keep dispatching to the bus '
    'afterwards) plus an injection - stop(), stop(timeout=T), '
    'stop(clear=True) on a generated bus, or cancel-all-tasks-and-wait as asyncio.run() does at exit - fired before loop '
    'iteration k. A pilot run of the same scenario gives the iteration count K; Hypothesis draws scenario, kind and k '
    '(per-mille of K), and a fixed family of base scenarios is enumerated over EVERY k <= K x every injection kind x '
    'every bus. Oracle: stop returns within T+1.0 virtual s and a bounded number of iterations; if the bus had accepted '
    'an event before, no handler of it starts after stop returned (whatever is dispatched to it later); after '
    'cancel-all every task is done within 1.0 virtual s (plus the longest generated handler clean-up); no livelock afterwards. Non-trivial = the target bus was not '
    'idle (or, for cancel-all, some bus was not idle) at the injection point; distinct by canonical JSON.'
)
ASSUMPTIONS = ['virtual time: crash points are loop iterations of a deterministic run', 'stop() on a never-started bus is a documented no-op', 'handlers already running when stop() returns may finish; only new starts are judged']

P = Profile(cleanup=0.25, cleanup_durs=[0.25, 2.0, 6.0], max_buses=3, par=0.15, fwd=0.25, maxdepth=[1, 2], wild=0.15, raises=0.05, max_actors=3, actor_ops=['disp', 'disp', 'burst', 'dispany', 'sleep', 'sleep', 'await', 'yield'], max_actor_ops=7, durs=[0.01, 0.05, 0.1, 0.11, 0.25, 0.5, 0.5, 16.0, 20.0], hist=[None, 50], warm=[True, False])

KINDS = [
    {'kind': 'stop', 'timeout': None, 'clear': False},
    {'kind': 'stop', 'timeout': 0.3, 'clear': False},
    {'kind': 'stop', 'timeout': None, 'clear': True},
    {'kind': 'cancel_all'},
]


@st.composite
def _case(draw):
    sc = draw(scenario(P))
    # some async handlers are wrapped in the library's own @retry decorator (it must not resurrect a handler that stop() cancelled)
    if draw(st.integers(0, 3)) == 0:
        hs = []
        for h in sc['handlers']:
            if h['kind'] == 'async' and draw(st.booleans()):
                h = dict(h, kind='aretry', retry={'wait': draw(st.sampled_from([0.0, 0.05, 0.5])), 'retries': draw(st.integers(1, 3))})
            hs.append(h)
        sc['handlers'] = hs
    inj = dict(draw(st.sampled_from(KINDS)))
    if inj['kind'] == 'stop':
        inj['bus'] = draw(st.integers(0, len(sc['buses']) - 1))
        if inj.get('timeout') is not None:
            inj['timeout'] = draw(st.sampled_from([0.05, 0.3, 1.0]))
    inj['permille'] = draw(st.integers(0, 999))
    sc['inject'] = inj
    return sc


def strategy(tier):
    return _case()


def budget(tier):
    return {'examples': 3000 if tier == 'quick' else 50000, 'wall_s': 400 if tier == 'quick' else 3000, 'shrink_s': 60}


BASE = [
    # two buses, handler on B0 awaits a child on B1, backlog on both, late dispatchers
    {'buses': [{'par': False, 'hist': None, 'rank': 1}, {'par': False, 'hist': None, 'rank': 2}], 'fwd': [],
     'handlers': [{'bus': 0, 'pat': 0, 'kind': 'async', 'prog': [['disp', 1, 1, 'ff'], ['disp', 1, 1, 'later'], ['sleep', 0.3], ['awaitall'], ['sleep', 0.2]], 'ret': 'idx'},
                  {'bus': 1, 'pat': 1, 'kind': 'async', 'prog': [['sleep', 0.25]], 'ret': 'idx'},
                  {'bus': 0, 'pat': 1, 'kind': 'async', 'prog': [['sleep', 0.15]], 'ret': 'idx'}],
     'actors': [[['disp', 1, 1], ['disp', 0, 1], ['sleep', 0.05], ['disp', 0, 0], ['disp', 0, 1], ['disp', 1, 1], ['sleep', 1.0], ['disp', 1, 1], ['disp', 0, 0]],
                [['sleep', 0.4], ['disp', 1, 1], ['sleep', 0.4], ['disp', 0, 1], ['disp', 1, 1]]],
     'maxdepth': 2, 'cap': 60, 'warm': False},
    # one bus, backlog of slow events, idle phase, later dispatches
    {'buses': [{'par': False, 'hist': 50, 'rank': 1}], 'fwd': [],
     'handlers': [{'bus': 0, 'pat': 0, 'kind': 'async', 'prog': [['sleep', 0.1]], 'ret': 'idx'}, {'bus': 0, 'pat': '*', 'kind': 'sync', 'prog': [], 'ret': 'none'}],
     'actors': [[['burst', 0, 0, 5], ['sleep', 1.0], ['disp', 0, 0], ['sleep', 0.5], ['disp', 0, 0]]],
     'maxdepth': 1, 'cap': 60, 'warm': True},
    # forwarding chain + parallel bus + nested await
    {'buses': [{'par': True, 'hist': None, 'rank': 2}, {'par': False, 'hist': None, 'rank': 1}, {'par': False, 'hist': None, 'rank': 3}], 'fwd': [[0, 1, '*'], [1, 2, '*']],
     'handlers': [{'bus': 0, 'pat': 0, 'kind': 'async', 'prog': [['sleep', 0.1], ['disp', 2, 1, 'await']], 'ret': 'idx'},
                  {'bus': 0, 'pat': 0, 'kind': 'async', 'prog': [['sleep', 0.25]], 'ret': 'idx'},
                  {'bus': 1, 'pat': '*', 'kind': 'async', 'prog': [['sleep', 0.05]], 'ret': 'idx'},
                  {'bus': 2, 'pat': '*', 'kind': 'async', 'prog': [['sleep', 0.11]], 'ret': 'idx'}],
     'actors': [[['disp', 0, 0], ['sleep', 0.3], ['disp', 0, 0], ['disp', 1, 1], ['sleep', 0.6], ['disp', 2, 0], ['disp', 0, 1]]],
     'maxdepth': 2, 'cap': 60, 'warm': True},
    # a handler that has been running for longer than the 15 s slow-handler monitor, a second handler of the same event, backlog
    {'buses': [{'par': False, 'hist': None, 'rank': 1}], 'fwd': [],
     'handlers': [{'bus': 0, 'pat': 0, 'kind': 'async', 'prog': [['sleep', 16.0], ['sleep', 1.0]], 'ret': 'idx'}, {'bus': 0, 'pat': 0, 'kind': 'async', 'prog': [['sleep', 0.1]], 'ret': 'idx'}],
     'actors': [[['disp', 0, 0], ['disp', 0, 0], ['sleep', 18.0], ['disp', 0, 0]]],
     'maxdepth': 1, 'cap': 20, 'warm': False},
    # handlers wrapped in @retry (retries left when the injection arrives), one of them awaiting a child, backlog, late dispatch
    {'buses': [{'par': False, 'hist': None, 'rank': 1}, {'par': False, 'hist': None, 'rank': 2}], 'fwd': [],
     'handlers': [{'bus': 0, 'pat': 0, 'kind': 'aretry', 'retry': {'wait': 0.05, 'retries': 2}, 'prog': [['sleep', 0.2], ['disp', 1, 1, 'await'], ['sleep', 0.1]], 'ret': 'idx'},
                  {'bus': 1, 'pat': 1, 'kind': 'aretry', 'retry': {'wait': 0.0, 'retries': 1}, 'prog': [['sleep', 0.15]], 'ret': 'idx'}],
     'actors': [[['disp', 0, 0], ['disp', 0, 0], ['sleep', 0.6], ['disp', 0, 0], ['disp', 1, 1]]],
     'maxdepth': 2, 'cap': 20, 'warm': False},
]


def _fine_bases():
    """stop(timeout=T) arriving on a bus that has just drained while another task hands it an event with a long handler a few loop
    ticks later (the window is 2-5 loop iterations wide: every injection point is enumerated, step 1)"""
    for ny in (0, 1, 2, 3, 4):
        yield {'buses': [{'par': False, 'hist': None, 'rank': 1}], 'fwd': [],
               'handlers': [{'bus': 0, 'pat': 0, 'kind': 'async', 'prog': [['sleep', 0.05]], 'ret': 'idx'}, {'bus': 0, 'pat': 1, 'kind': 'async', 'prog': [['sleep', 16.0]], 'ret': 'idx'}],
               'actors': [[['disp', 0, 0]], [['sleep', 0.05]] + ([['yield', ny]] if ny else []) + [['disp', 0, 1]]],
               'maxdepth': 1, 'cap': 10, 'warm': True}


def enumerate_cases(tier, seed):
    for base in _fine_bases():
        pilot = run_scenario(dict(base))
        K = pilot['iters'] - pilot['iter0']
        for T in (0.05, 0.3):
            for k in range(0, K):
                yield dict(base, inject={'kind': 'stop', 'timeout': T, 'clear': False, 'bus': 0, 'k': k})
    bases = [BASE[0], BASE[3], BASE[4]] if tier == 'quick' else BASE
    for bi, base in enumerate(bases):
        pilot = run_scenario(dict(base))
        K = pilot['iters'] - pilot['iter0']
        step = 3 if tier == 'quick' else 1
        for kind in KINDS:
            targets = range(len(base['buses'])) if kind['kind'] == 'stop' else [0]
            for b in targets:
                for k in range(0, K, step):
                    sc = dict(base)
                    inj = dict(kind)
                    inj['bus'] = b
                    inj['k'] = k
                    sc['inject'] = inj
                    yield sc


def run_case(sc):
    sc = dict(sc)
    inj = dict(sc['inject'])
    if 'k' not in inj:
        pilot = dict(sc)
        pilot.pop('inject')
        po = run_scenario(pilot)
        K = max(1, po['iters'] - po['iter0'])
        inj['k'] = (inj['permille'] * K) // 1000
        sc['inject'] = inj
    out = run_scenario(sc)
    F = Facts(sc, out)
    tr = out['trace']
    viol = []
    cl = ['inject:' + inj['kind'] + ('+timeout' if inj.get('timeout') else '') + ('+clear' if inj.get('clear') else '')]
    if any(h.get('kind') == 'aretry' for h in sc['handlers']):
        cl.append('retry-wrapped-handler')
    nontrivial = False
    sb = next((r for r in tr if r['k'] == 'inj-stop-begin'), None)
    se = next((r for r in tr if r['k'] == 'inj-stop-end'), None)
    ic = next((r for r in tr if r['k'] == 'inj-cancel'), None)
    icd = next((r for r in tr if r['k'] == 'inj-cancel-done'), None)
    hang = out.get('hang')
    if sb is None and ic is None:
        cl.append('injection-after-end')
    if sb is not None:
        T = inj.get('timeout') or 0.0
        nontrivial = bool(sb['busy'])
        cl.append('target:' + ('busy' if sb['busy'] else 'started-idle' if sb['started'] else 'never-started'))
        if sb['running']:
            cl.append('target:handler-mid-flight')
        if se is None:
            viol.append(('C16.a', f'stop({inj.get("timeout")}, clear={inj.get("clear")}) on {sb["bus"]} called at t={sb["t"]:g} (iteration {sb["iters"]}) never returned; run ended at t={out["vt"]:g} hang={hang}'))
        else:
            if se['took'] > T + 1.0 + 1e-9:
                viol.append(('C16.a', f'stop(timeout={inj.get("timeout")}) on {sb["bus"]} took {se["took"]:g} virtual s (> timeout + 1.0)'))
            if se['iters'] - sb['iters'] > 5000:
                viol.append(('C16.a', f'stop() on {sb["bus"]} needed {se["iters"] - sb["iters"]} loop iterations'))
            if se.get('exc'):
                viol.append(('C16.a', f'stop() on {sb["bus"]} raised {se["exc"]}'))
            if sb['started']:
                late = []
                for r in tr[se['i'] :]:
                    if r['k'] == 'enter' and r['bus'] == sb['bus']:
                        prev = [x for x in tr[: r['i']] if x['k'] == 'exit' and (x['bus'], x['ev'], x['h']) == (r['bus'], r['ev'], r['h'])]
                        # a further attempt of a @retry-wrapped handler that had started before stop() returned and failed on its own is
                        # not a new start; a body that runs again after it was CANCELLED is (the cancellation was swallowed)
                        if prev and prev[-1]['how'] == 'raise' and sc['handlers'][r['h']].get('kind') == 'aretry':
                            continue
                        late.append(r)
                if late:
                    r = late[0]
                    viol.append(('C16.b', f'handler h{r["h"]} of event {r["ev"]} started on {sb["bus"]} at t={r["t"]:g} (idx {r["i"]}) after stop() had returned at t={se["t"]:g} (idx {se["i"]})'))
            if any(r['k'] == 'enq-call' and r['bus'] == sb['bus'] and r['i'] > se['i'] for r in tr):
                cl.append('dispatch-to-stopped-bus-afterwards')
    if ic is not None:
        nontrivial = any(ic['busy'])
        cl.append('cancel:' + ('some-bus-busy' if any(ic['busy']) else 'all-idle'))
        if icd is None:
            viol.append(('C16.c', f'cancel-all at t={ic["t"]:g}: the wait for the cancelled tasks never finished; hang={hang}'))
        elif icd['pending']:
            viol.append(('C16.c', f'cancel-all at t={ic["t"]:g} (iteration {ic["iters"]}): task(s) still not done 1.0 virtual s (plus the longest generated clean-up) later: {icd["pending"]}'))
    if hang and hang.get('kind') in ('spinning', 'budget', 'deadlock') and (sb is not None or ic is not None):
        viol.append(('C16.d', f'after the injection the event loop livelocked: {hang.get("detail")}'))
    return {'viol': viol, 'nontrivial': nontrivial, 'classes': cl, 'hang': bool(hang), 'log': fmt_trace(out)}
