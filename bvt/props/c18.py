"""C18 expect() returns the first match and always unsubscribes (generated call histories vs reference model)."""
import asyncio
import collections

from hypothesis import strategies as st

from bubus import BaseEvent, EventBus

from bvt.vloop import Hang, VLoop

ID = 'C18'
LEVEL = 'exploration'
RULE = (
    'Generated call histories on one bus (serial or parallel handlers) with ordinary handlers: start_expect(type as '
    'class|string, include/exclude/predicate from a family incl. a raising one, timeout off the 0.05 s grid), '
    'cancel_expect(i), dispatch(type, n) bursts, advance(dt), stop(clear=True) with expects pending; 1-4 overlapping expects. Reference model: an expect sees '
    'the events of its type whose processing on the bus starts after registration, in processing order, and resolves '
    'with the first one satisfying include and predicate and not exclude, else TimeoutError at registration+timeout; a '
    'candidate whose processing interval contains the registration, the deadline or the cancellation instant is '
    'ambiguous (both outcomes accepted). Also: handler registry size == baseline + pending expects after every outcome, '
    'ordinary handlers unaffected and no value left on other code\'s events (one event type declares a result type). Non-trivial = an expect resolved with >= 2 candidate events of its type processed '
    'while it was pending, or >= 2 expects pending at once; distinct by canonical JSON.'
)
ASSUMPTIONS = ['virtual time; deadlines off-grid so they never coincide with handler boundaries']


class EA(BaseEvent[str]):  # typed: the ordinary handler returns 'ok'
    n: int = 0
    tag: int = -1


class EB(BaseEvent):
    n: int = 0
    tag: int = -1


class EC(BaseEvent):
    # a model that declares its own event_type: events carry 'ec_custom', handlers registered for the class must see them
    event_type: str = 'ec_custom'
    n: int = 0
    tag: int = -1


TY = {'EA': EA, 'EB': EB, 'EC': EC}
FILT = {
    'any': lambda e: True,
    'odd': lambda e: e.n % 2 == 1,
    'big': lambda e: e.n >= 4,
    'never': lambda e: False,
    'boom': lambda e: 1 / 0,
}
q = st.sampled_from([0, 0.05, 0.05, 0.1, 0.15, 0.3])


@st.composite
def _case(draw):
    ops = []
    # bias: expects are registered before matching traffic
    for _ in range(draw(st.integers(2, 11))):
        k = draw(st.sampled_from(['expect', 'expect', 'disp', 'disp', 'disp', 'sleep', 'cancel']))
        if k == 'disp':
            ops.append(['disp', draw(st.sampled_from(['EA', 'EA', 'EB', 'EC'])), draw(st.integers(0, 6)), draw(st.integers(1, 3))])
        elif k == 'sleep':
            ops.append(['sleep', draw(q)])
        elif k == 'cancel':
            ops.append(['cancel', draw(st.integers(0, 5))])
        else:
            ops.append(['expect', draw(st.sampled_from(['EA', 'EA', 'EB', 'EC'])), draw(st.booleans()), draw(st.sampled_from(['any', 'any', 'odd', 'big', 'never', 'boom'])), draw(st.sampled_from(['never', 'never', 'never', 'odd', 'big', 'boom'])), draw(st.sampled_from(['any', 'any', 'any', 'odd'])), draw(st.sampled_from([None, 0.0625, 0.3125, 1.0625, 0, 0.0]))])
    if draw(st.integers(0, 5)) == 0:
        # the bus is stopped with clear=True while expects may still be pending: they must still end with TimeoutError / stay pending
        ops.insert(draw(st.integers(max(0, len(ops) - 3), len(ops))), ['stopclear'])
    return {'ops': ops, 'hd': draw(st.sampled_from([0, 0.05, 0.2])), 'par': draw(st.integers(0, 4)) == 0}


def strategy(tier):
    return _case()


def budget(tier):
    return {'examples': 8000 if tier == 'quick' else 150000, 'wall_s': 400 if tier == 'quick' else 3000, 'shrink_s': 60}


def _match(op, e):
    _, ty, as_str, inc, exc, pred, to = op
    try:
        return bool(FILT[inc](e) and FILT[pred](e) and not FILT[exc](e))
    except ZeroDivisionError:
        return False


def run_case(c):
    loop = VLoop(spin_budget=60_000)
    asyncio.set_event_loop(loop)
    T = loop.time
    viol = []
    seq = [0]
    stats = collections.Counter()

    def tick():
        seq[0] += 1
        return seq[0]

    res = {}

    async def main():
        bus = EventBus(name='B', parallel_handlers=c['par'])
        res['bus'] = bus
        proc = {}  # tag -> dict(start seq/time, end seq/time, event)
        evs = []

        def probe(e):
            proc[e.tag] = {'s': tick(), 'st': T(), 'e': None, 'et': None, 'ev': e}

        async def slow(e):
            if c['hd']:
                await asyncio.sleep(c['hd'])
            return 'ok'

        def last(e):
            pass

        bus.on(EA, probe)
        bus.on(EB, probe)
        bus.on('ec_custom', probe)  # (class patterns are keyed by class name: the declared type name is what events of EC carry)
        bus.on(EA, slow)
        bus.on(EB, slow)
        bus.on('ec_custom', slow)
        bus.on('*', last)

        def nhandlers():
            return sum(len(v) for v in bus.handlers.values())

        base = nhandlers()
        exps = []
        pending = [0]
        stopped = [False]
        stop_at = {}

        async def do_expect(rec):
            _, ty, as_str, inc, exc, pred, to = rec['op']
            rec['reg_seq'] = tick()
            rec['reg_t'] = T()
            pending[0] += 1
            kw = {}
            if inc != 'any' or True:
                kw['include'] = FILT[inc]
            if exc != 'never':
                kw['exclude'] = FILT[exc]
            if pred != 'any':
                kw['predicate'] = FILT[pred]
            try:
                r = await bus.expect(({'EC': 'ec_custom'}.get(ty, ty)) if as_str else TY[ty], timeout=to, **kw)
                rec['out'] = ('got', r)
            except asyncio.CancelledError:
                rec['out'] = ('cancelled',)
            except TimeoutError:
                rec['out'] = ('timeout',)
            except BaseException as e:  # noqa
                rec['out'] = ('exc', type(e).__name__)
            pending[0] -= 1
            rec['end_seq'] = tick()
            rec['end_t'] = T()
            n = nhandlers()
            if stopped[0]:
                pass  # stop(clear=True) emptied the registry; what is left is not an expect() subscription question any more
            elif n != base + pending[0]:
                viol.append(('C18.d', f'after expect #{rec["i"]} ended with {rec["out"][0]} the bus has {n} handlers registered, expected baseline {base} + {pending[0]} pending expects'))

        tagc = [0]
        for op in c['ops']:
            if op[0] == 'stopclear':
                if not stopped[0]:
                    await bus.stop(clear=True)
                    stopped[0] = nhandlers() == 0  # (stop() on a bus that never started is a documented no-op: nothing is cleared)
                    if stopped[0]:
                        stop_at['t'] = T()
                        stop_at['seq'] = tick()
            elif op[0] == 'disp':
                if stopped[0]:
                    continue
                for j in range(op[3]):
                    e = TY[op[1]](n=(op[2] + j) % 7, tag=tagc[0])
                    tagc[0] += 1
                    evs.append(e)
                    bus.dispatch(e)
            elif op[0] == 'sleep':
                await asyncio.sleep(op[1])
            elif op[0] == 'expect':
                if stopped[0]:
                    continue
                rec = {'op': op, 'i': len(exps), 'gen': 0}
                rec['task'] = asyncio.ensure_future(do_expect(rec))
                exps.append(rec)
                await asyncio.sleep(0)  # let it register
                rec['pending_at_reg'] = pending[0]
            elif op[0] == 'cancel' and exps:
                rec = exps[op[1] % len(exps)]
                if not rec['task'].done():
                    rec['cancel_t'] = T()
                    rec['cancel_seq'] = tick()
                    rec['task'].cancel()
            # record processing end for events (status complete)
        # let the bus work off everything that was dispatched (serial: hd per event) before judging the final state
        await asyncio.sleep(3.0 + len(evs) * (c['hd'] + 0.05))
        for rec in exps:
            if not rec['task'].done():
                rec['forced'] = True
                rec['cancel_t'] = T()
                rec['cancel_seq'] = tick()
                rec['task'].cancel()
        await asyncio.sleep(0.5)
        n = nhandlers()
        if not stopped[0] and n != base:
            viol.append(('C18.d', f'after all expects ended the bus has {n} handlers registered, baseline was {base}'))
        # processing end per event: when its slow handler result completed (start + hd)
        for tag, p in proc.items():
            p['et'] = p['st'] + c['hd']
        order = sorted(proc.values(), key=lambda p: p['s'])
        for rec in exps:
            op = rec['op']
            ty, to = op[1], op[6]
            out = rec.get('out')
            if out is None:
                viol.append(('C18.c', f'expect #{rec["i"]} never produced an outcome'))
                continue
            D = None if to is None else rec['reg_t'] + to
            C = rec.get('cancel_t')
            possible = []  # list of acceptable outcomes: ('got', event) | ('timeout',) | ('cancelled',)
            ncand = 0
            decided = False
            for p in order:
                e = p['ev']
                if type(e).__name__ != ty:
                    continue
                if p['et'] < rec['reg_t'] or (p['et'] == rec['reg_t'] and p['s'] < rec['reg_seq'] and c['hd'] == 0):
                    continue  # processed wholly before registration
                # processing had started before registration, or starts at the very instant of registration (the handler
                # list may have been fixed before the probe handler ran): may or may not be seen
                amb = p['s'] < rec['reg_seq'] or p['st'] == rec['reg_t']
                if ty == 'EC' and not op[2]:
                    amb = True  # a class pattern whose model overrides event_type: whether it sees events that carry the declared name is not specified; only the unsubscription clauses are judged for it
                if D is not None and p['st'] > D:
                    break
                if C is not None and p['st'] > C:
                    break
                if D is not None and p['st'] <= D <= p['et'] and not (p['st'] == p['et']):
                    amb = True
                if C is not None and p['st'] <= C <= p['et']:
                    amb = True
                if stop_at and p['st'] <= stop_at['t'] <= p['et']:
                    amb = True  # the bus was stopped while this event was being processed: the subscription may have been cleared first
                ncand += 1
                if _match(op, e):
                    possible.append(('got', e))
                    if not amb:
                        decided = True
                        break
            if not decided:
                if C is not None and D is not None and C == D:
                    # cancellation and deadline at the same instant (only possible with timeout=0): either may win
                    possible.append(('cancelled',))
                    possible.append(('timeout',))
                elif C is not None and (D is None or C < D):
                    possible.append(('cancelled',))
                elif D is not None:
                    possible.append(('timeout',))
                else:
                    possible.append(('cancelled',))
            ok = any((o[0] == out[0] and (o[0] != 'got' or o[1] is out[1])) for o in possible)
            if out[0] == 'got':
                stats['resolved'] += 1
                if ncand >= 2:
                    stats['resolved-multi-candidate'] += 1
                if type(out[1]).__name__ != ty or not _match(op, out[1]):
                    viol.append(('C18.b', f'expect #{rec["i"]} {op} returned non-matching event {type(out[1]).__name__}(n={out[1].n})'))
                elif not ok:
                    viol.append(('C18.a', f'expect #{rec["i"]} {op} returned event tag {out[1].tag} (n={out[1].n}); the reference model allows {[(o[0], getattr(o[1], "tag", None) if len(o) > 1 else None) for o in possible]}'))
            elif out[0] == 'timeout':
                stats['timed-out'] += 1
                if to is None:
                    viol.append(('C18.c', f'expect #{rec["i"]} without timeout raised TimeoutError'))
                elif abs(rec['end_t'] - D) > 1e-9:
                    viol.append(('C18.c', f'expect #{rec["i"]} timed out at t={rec["end_t"]}, registration+timeout={D}'))
                elif not ok:
                    viol.append(('C18.c', f'expect #{rec["i"]} {op} raised TimeoutError; the reference model allows {[(o[0], getattr(o[1], "tag", None) if len(o) > 1 else None) for o in possible]}'))
            elif out[0] == 'cancelled':
                stats['cancelled'] += 1
                if C is None:
                    viol.append(('C18.c', f'expect #{rec["i"]} was cancelled but nobody cancelled it'))
                elif not ok and not rec.get('forced'):
                    viol.append(('C18.a', f'expect #{rec["i"]} {op} ended cancelled; the reference model allows {[(o[0], getattr(o[1], "tag", None) if len(o) > 1 else None) for o in possible]}'))
                elif rec.get('forced') and not ok:
                    viol.append(('C18.a', f'expect #{rec["i"]} {op} was still pending at the end although the reference model says {[(o[0], getattr(o[1], "tag", None) if len(o) > 1 else None) for o in possible]}'))
            else:
                viol.append(('C18.c', f'expect #{rec["i"]} {op} raised {out[1]}'))
            if rec.get('pending_at_reg', 0) >= 2:
                stats['concurrent-expects'] += 1
        # ordinary handlers unaffected (not judged when the bus was stopped half way: queued events are never processed then)
        for e in ([] if stopped[0] else evs):
            rs = [r for r in e.event_results.values() if r.handler_name.endswith('slow')]
            ps = [r for r in e.event_results.values() if r.handler_name.endswith('probe')]
            if len(rs) != 1 or rs[0].status != 'completed' or rs[0].result != 'ok' or len(ps) != 1 or ps[0].status != 'completed':
                viol.append(('C18.e', f'ordinary handlers of event tag {e.tag} affected: slow={[(r.status, r.result) for r in rs]} probe={[r.status for r in ps]}'))
                break
            sig = e.event_completed_signal
            if not (sig and sig.is_set()):
                viol.append(('C18.e', f'event tag {e.tag} did not complete'))
                break
            # a pending expect() is a passive observer: whatever it registered must leave no value on other code's events (a filter
            # that raises is recorded as that temporary handler's error - existing, accepted behaviour)
            extra = [r for r in e.event_results.values() if not r.handler_name.endswith(('slow', 'probe', 'last'))]
            bad = [(r.handler_name.split('.')[-1], r.status, repr(r.result)[:40], type(r.error).__name__ if r.error else None) for r in extra if not ((r.status == 'completed' and r.result is None) or (r.status == 'error' and isinstance(r.error, ZeroDivisionError)))]
            if bad:
                viol.append(('C18.e', f'event tag {e.tag} ({type(e).__name__}) carries results left behind by expect(): {bad}'))
                break

    try:
        try:
            loop.run_until_complete(asyncio.wait_for(main(), 600))
        except Hang as e:
            viol.append(('C18.c', f'event loop made no progress: {e}'))
        except asyncio.TimeoutError:
            viol.append(('C18.c', 'history did not finish within 600 virtual seconds'))
    finally:
        try:
            loop.spin_budget = 10**9
            for t in asyncio.all_tasks(loop):
                t.cancel()
            try:
                loop.run_until_complete(asyncio.sleep(0))
            except BaseException:  # noqa
                pass
            b = res.get('bus')
            if b is not None:
                try:
                    loop.run_until_complete(asyncio.wait_for(b.stop(clear=True), 5))
                except BaseException:  # noqa
                    pass
            for t in asyncio.all_tasks(loop):
                t.cancel()
            try:
                loop.run_until_complete(asyncio.sleep(0))
            except BaseException:  # noqa
                pass
        finally:
            loop.close()
            asyncio.set_event_loop(None)
            EventBus.all_instances.clear()
    cl = [k for k in stats if stats[k]]
    if c['par']:
        cl.append('parallel-bus')
    if any(op[0] == 'expect' and 'boom' in (op[3], op[4]) for op in c['ops']):
        cl.append('raising-filter')
    if any(op[0] == 'stopclear' for op in c['ops']):
        cl.append('stop-clear-with-pending-expects')
    seen, outv = set(), []
    for v in viol:
        if v[0] not in seen:
            seen.add(v[0])
            outv.append(v)
    return {'viol': outv, 'nontrivial': stats['resolved-multi-candidate'] > 0 or stats['concurrent-expects'] > 0, 'classes': cl}
