"""C06 Cross-bus mutual exclusion of event processing."""
from bvt import oracles
from bvt.gen import Profile, scenario
from bvt.props._scen import common_classes, judge

ID = 'C06'
LEVEL = 'exploration'
RULE = (
    'Generated 2-3 bus scenarios where each bus is first used either by an actor or from inside a handler of another '
    'bus, long handlers on one bus while events are queued on another, raising handlers (a failing parallel sibling must '
    'not end the event early), event timeouts that cut handlers off which then need 0.05-0.5 s of asynchronous clean-up, '
    'serial and parallel buses, cold and warm. '
    'Oracle (interval analysis over enter/exit/await records): whenever a handler starts, every other running handler '
    'is suspended in an await, or is on a parallel bus with a sibling of the same event suspended in an await, or is a '
    'handler of the same event on the same parallel bus. Non-trivial = some handler with a positive duration was '
    'running while another bus had a queued event; distinct by canonical JSON.'
)
ASSUMPTIONS = ['virtual time', 'a handler counts as running until its coroutine has finished, including asynchronous clean-up after a timeout cancellation']

from hypothesis import strategies as _st


@_st.composite
def _timeouts(draw):
    # a third of the scenarios: handlers get cut off by event timeouts and need time to unwind - the lock must be held meanwhile
    if draw(_st.integers(0, 2)) != 0:
        return {}
    return {str(t): draw(_st.sampled_from([0.13, 0.27, 0.41, 0.77])) for t in range(4) if draw(_st.booleans())}


P = Profile(timeouts=_timeouts(), cleanup=0.3, min_buses=2, max_buses=3, par=0.3, raises=0.2, raise_kinds=['VE', 'custom', 'ITO'], actor_ops=['disp', 'disp', 'burst', 'dispany', 'sleep', 'await', 'yield'], maxdepth=[2, 3], wild=0.15, fwd=0.25, warm=[False, False, True], modes=['await', 'later', 'ff', 'ff'], durs=[0.05, 0.1, 0.11, 0.25, 0.5, 1.0, 1.0, 16.0])


def budget(tier):
    return {'examples': 6000 if tier == 'quick' else 120000, 'wall_s': 300 if tier == 'quick' else 3000, 'shrink_s': 60}


def strategy(tier):
    from hypothesis import strategies as st

    from bvt.props._scen import mixed, with_stop

    # a quarter of the cases: an actor stops one of the buses - often while its run loop is queued for the global lock or a handler
    # of it is in flight; the buses that were not stopped must still exclude each other
    return st.integers(0, 3).flatmap(lambda k: with_stop(scenario(P), 1) if k == 0 else mixed(scenario(P), tier, ID))


def _facts(F):
    # a handler (duration > 0) running while another bus has a queued (accepted, not started) event
    contended = False
    queued = set()
    running = {}
    for r in F.tr:
        k = r['k']
        if k == 'enq-ok':
            queued.add((r['bus'], r['ev']))
        elif k == 'enter':
            queued.discard((r['bus'], r['ev']))
            running[(r['bus'], r['ev'], r['h'])] = r['t']
        elif k == 'exit':
            running.pop((r['bus'], r['ev'], r['h']), None)
        if not contended and running and queued:
            for me, t0 in running.items():
                if r['t'] > t0 and any(b != me[0] for (b, _e) in queued):
                    contended = True
                    break
    first_in_handler = set()
    seen = set()
    for r in F.tr:
        if r['k'] == 'enq-ok' and r['bus'] not in seen:
            seen.add(r['bus'])
            prev = F.tr[r['i'] - 2] if r['i'] >= 2 else None
            if prev is not None and prev['k'] == 'disp' and not isinstance(prev['by'], str):
                first_in_handler.add(r['bus'])
    return contended, first_in_handler


def nontrivial(F):
    return _facts(F)[0]


def classes(F):
    cl = common_classes(F)
    c, f = _facts(F)
    if c:
        cl.append('contended')
    if f and not F.sc.get('warm'):
        cl.append('bus-first-used-inside-handler')
    for r in F.tr:
        if r['k'] == 'a-stop-begin':
            cl.append('stop:' + ('target-busy' if r['busy'] else ('target-running-idle' if r['started'] else 'target-never-started')))
            if any(m[0] != r['bus'] for m in F.running_at(r['i'])):
                cl.append('stop-while-another-bus-runs-a-handler')
    return cl


def classify(sc, out, v):
    from bvt import findings

    if v[0] == 'C06.a' and len(v) > 2 and findings.f14_overlap(out['_F'], v[2]['idx'], v[2]['starting'], v[2]['running'][1]):
        return findings.SIG_F14
    return None


def run_case(sc):
    return judge(sc, [oracles.c06], nontrivial, classes)
