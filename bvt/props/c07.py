"""C07 Forwarding reaches each bus once, never loops, and records the path."""
from hypothesis import strategies as st

from bvt import oracles
from bvt.gen import DUR, Profile, handler_prog
from bvt.props._scen import common_classes, judge

ID = 'C07'
LEVEL = 'exploration'
RULE = (
    'Generated directed forwarding graphs over 2-5 buses (chains, diamonds, cycles, self-loops, several wildcard and '
    'type-specific forwards per bus, bus names that are substrings of each other), any entry bus, timed handlers (functions and bound methods of bus objects) and a passive probe on every bus, optional nested '
    'dispatch/awaits and concurrent traffic, re-dispatch of in-flight events to other buses. Oracle = graph '
    'reachability per event type: the set of buses that processed the event equals the reachable set, each handler '
    'once, the run terminates, event_path = buses in order of arrival each once, same object everywhere, results of '
    'all reachable buses accumulate. Non-trivial = the forwarding graph has a cycle, diamond or self-loop and >= 3 '
    'buses were reachable for some event; distinct by canonical JSON.'
)
ASSUMPTIONS = ['virtual time', 'no stop / capacity overflow; one scenario in six has short event timeouts (events whose processing a timed-out awaiting ancestor interrupted are left to C10)']

PH = Profile(raises=0.12, raise_kinds=['VE', 'custom', 'chain', 'CE', 'CE'], wild=0.3, maxdepth=[1, 2], max_ops=3, modes=['await', 'ff', 'later'])


@st.composite
def _sc(draw):
    nb = draw(st.integers(2, 5))
    ranks = draw(st.permutations(list(range(1, nb + 1))))
    small_hist = draw(st.integers(0, 3)) == 0  # bounded histories: eviction must not change forwarding
    buses = [{'par': draw(st.integers(0, 5)) == 0, 'hist': draw(st.sampled_from([2, 3, 5])) if small_hist else None, 'rank': ranks[i]} for i in range(nb)]
    maxdepth = draw(st.sampled_from([0, 1, 1, 2]))
    shape = draw(st.sampled_from(['random', 'random', 'chain', 'cycle', 'diamond', 'star']))
    edges = []
    if shape == 'chain':
        edges = [(i, i + 1) for i in range(nb - 1)]
    elif shape == 'cycle':
        edges = [(i, (i + 1) % nb) for i in range(nb)]
    elif shape == 'diamond' and nb >= 4:
        edges = [(0, 1), (0, 2), (1, 3), (2, 3)]
    elif shape == 'star':
        edges = [(0, i) for i in range(1, nb)] + [(i, 0) for i in range(1, nb)]
    extra = draw(st.lists(st.tuples(st.integers(0, nb - 1), st.integers(0, nb - 1)), max_size=4 if shape != 'random' else 8))
    edges = edges + [e for e in extra]
    fwd = []
    seen = set()
    for s, d in edges:
        pat = '*'
        if draw(st.integers(0, 4)) == 0:
            pat = draw(st.integers(0, max(0, maxdepth)))
        if (s, d, pat) in seen:
            continue
        seen.add((s, d, pat))
        fwd.append([s, d, pat])
    handlers = [{'bus': i, 'pat': '*', 'kind': 'sync', 'prog': [], 'ret': 'none', 'probe': True} for i in range(nb)]
    for level in range(maxdepth + 1):
        for _ in range(draw(st.integers(1 if level == 0 else 0, 3))):
            bi = draw(st.integers(0, nb - 1))
            is_async = draw(st.integers(0, 3)) != 0
            prog = draw(handler_prog(PH, nb, level, maxdepth, is_async, False))
            kind = 'async' if is_async else 'sync'
            h = {'bus': bi, 'pat': level if draw(st.integers(0, 3)) else f's{level}', 'kind': kind, 'prog': prog, 'ret': draw(st.sampled_from(['idx', 'none', 'str']))}
            if draw(st.integers(0, 4)) == 0:
                # an ordinary handler that happens to be a bound method of a bus object (applications subclass EventBus): never a forward
                h['kind'] = 'abusmeth' if is_async else 'busmeth'
                h['owner'] = draw(st.integers(0, nb - 1))
            if draw(st.integers(0, 5)) == 5:
                h['bus2'] = draw(st.integers(0, nb - 1).filter(lambda x: x != bi))  # the same function object registered on a second bus
            handlers.append(h)
    if fwd and draw(st.integers(0, 5)) == 0:
        # a type-specific handler on a forwarding bus that keeps dispatching its own event type to its own bus from inside itself: on
        # the 4th level the library's recursion guard refuses it - the forwards registered on that bus must still happen for that event
        src = draw(st.sampled_from(sorted({e[0] for e in fwd})))
        maxdepth = 3
        handlers.append({'bus': src, 'pat': 0, 'kind': draw(st.sampled_from(['async', 'async', 'sync'])), 'prog': [['disp', src, 0, draw(st.sampled_from(['ff', 'ff', 'await']))]], 'ret': 'idx', 'selfrec': True})
        if handlers[-1]['kind'] == 'sync':
            handlers[-1]['prog'][0][3] = 'ff'
    actors = []
    for _ in range(draw(st.integers(1, 3))):
        ops = []
        for _ in range(draw(st.integers(1, 5))):
            k = draw(st.sampled_from(['disp', 'disp', 'disp', 'sleep', 'await', 'redisp', 'yield', 'burst']))
            if k == 'disp':
                ops.append(['disp', draw(st.integers(0, nb - 1)), draw(st.integers(0, maxdepth))])
            elif k == 'burst':
                ops.append(['burst', draw(st.integers(0, nb - 1)), draw(st.integers(0, maxdepth)), draw(st.sampled_from([2, 3, 6]))])
            elif k == 'sleep':
                ops.append(['sleep', draw(st.sampled_from(DUR))])
            elif k == 'await':
                ops.append(['await', draw(st.integers(0, 5))])
            elif k == 'redisp':
                ops.append(['redisp', draw(st.integers(0, 5)), draw(st.integers(0, nb - 1))])
            else:
                ops.append(['yield', draw(st.integers(1, 3))])
        actors.append(ops)
    # with bounded histories the queue (50) / backlog (100) limits are active: keep far below them (rejection is C14's subject)
    sc_names = None
    if draw(st.integers(0, 4)) == 0:
        # bus names that contain each other (Orders / OrdersArchive, Bus1 / Bus10): buses must still be told apart exactly
        pool = draw(st.permutations(['Bus1', 'Bus10', 'Bus', 'Bus100', 'OrdersArchive', 'Orders', 'Ord']))
        sc_names = list(pool[:nb])
    out = {'buses': buses, 'fwd': fwd, 'handlers': handlers, 'actors': actors, 'maxdepth': maxdepth, 'cap': 24 if small_hist else 80, 'warm': draw(st.booleans())}
    if sc_names:
        out['names'] = sc_names
    if draw(st.integers(0, 5)) == 0:
        # short event timeouts: a handler that times out on a forwarding bus must not keep the event from travelling on
        out['timeouts'] = {str(t): draw(st.sampled_from([0.13, 0.27, 0.41])) for t in range(4) if draw(st.booleans())}
    return out


def budget(tier):
    return {'examples': 6000 if tier == 'quick' else 120000, 'wall_s': 300 if tier == 'quick' else 3000, 'shrink_s': 60}


def strategy(tier):
    return _sc()


def _graph_kind(F):
    import collections

    adj = collections.defaultdict(set)
    for s, d, _p in F.sc['fwd']:
        adj[s].add(d)
    kinds = set()
    if any(s == d for s, d, _p in F.sc['fwd']):
        kinds.add('self-loop')
    # cycle detection
    color = {}

    def dfs(u):
        color[u] = 1
        for w in adj[u]:
            if w == u:
                continue
            if color.get(w) == 1:
                kinds.add('cycle')
            elif w not in color:
                dfs(w)
        color[u] = 2

    for u in list(adj):
        if u not in color:
            dfs(u)
    # diamond: a node reachable via two distinct direct predecessors that are both reachable from a common node
    preds = collections.defaultdict(set)
    for s, d, _p in F.sc['fwd']:
        if s != d:
            preds[d].add(s)
    if any(len(p) >= 2 for p in preds.values()):
        kinds.add('diamond/multi-pred')
    multi = collections.Counter((s, d) for s, d, _p in F.sc['fwd'])
    if any(n >= 2 for n in multi.values()):
        kinds.add('parallel-edges')
    return kinds


def _max_reach(F):
    best = 0
    for ev in F.accepted:
        typ = F.etype.get(ev)
        entry = F.direct_buses(ev)
        if typ is None or not entry:
            continue
        best = max(best, len(F.reachable(entry, typ)))
    return best


def nontrivial(F):
    return bool(_graph_kind(F) & {'self-loop', 'cycle', 'diamond/multi-pred'}) and _max_reach(F) >= 3


def classes(F):
    cl = common_classes(F) + ['graph:' + k for k in sorted(_graph_kind(F))]
    cl.append(f'reach={_max_reach(F)}')
    if any(r['k'] == 'redisp' and r.get('ok') for r in F.tr):
        cl.append('redispatch')
    if any(r['err'] == 'RuntimeError' and r['errkey'] is None for x in F.final.values() for r in x['results']):
        cl.append('recursion-guard-tripped-on-a-forwarding-bus' if F.sc.get('fwd') else 'recursion-guard-tripped')
    if any(r['k'] == 'exit' and r['how'] == 'cancelled' for r in F.tr):
        cl.append('handler-timed-out-on-a-forwarding-bus' if F.sc.get('fwd') else 'handler-timed-out')
    return cl


def run_case(sc):
    return judge(sc, [oracles.c07], nontrivial, classes)
