"""C03 Awaiting an event returns iff its whole handler/descendant tree is done."""
from hypothesis import strategies as st

from bvt import oracles
from bvt.gen import Profile, scenario
from bvt.props._scen import common_classes, judge

ID = 'C03'
LEVEL = 'exploration'
RULE = (
    'Generated event trees (depth <= 3, awaited / later / fire-and-forget children on any bus, raising handlers, '
    'forwarding, explicit parent ids, self-recursive wildcard handlers deep enough to trip the recursion guard) with 1-3 actors awaiting roots and descendants before, during and long after '
    'processing. Oracle at the instant each external await returns: same object, no exception, all results terminal, '
    'every harness-known accepted descendant complete; liveness: no actor is still blocked in an await when the run '
    'has been silent for longer than any generated wait. One scenario in six also stops a bus (possibly with a handler in flight): '
    'there only the converse is judged - a waiter whose whole tree has terminal results (cancelled handlers included) must have been released. Non-trivial = the awaited event had >= 1 accepted descendant; '
    'distinct by canonical JSON.'
)
ASSUMPTIONS = ['virtual time; liveness judged as bounded safety (progress-based stall detector)', 'no firing timeouts; stop() only in the dedicated sub-family (trees it leaves unprocessed are not judged); history unlimited or default 50 with < 50 events']

P = Profile(raises=0.2, actor_ops=['disp', 'disp', 'disp', 'sleep', 'await', 'await', 'await', 'awaitdesc', 'yield', 'expect'], max_actor_ops=6, maxdepth=[2, 3, 3], wild=0.15, fwd=0.35, xp=0.05, modes=['await', 'later', 'ff', 'ff'], deep_wild=True)


def budget(tier):
    return {'examples': 6000 if tier == 'quick' else 120000, 'wall_s': 300 if tier == 'quick' else 3000, 'shrink_s': 60}


def strategy(tier):
    from bvt.props._scen import mixed

    from bvt.props._scen import with_stop, with_wal

    # a third of the cases come from the stop() sub-family (every second of those actually stops a bus): there only the statement's
    # converse binds - once every handler result of the awaited tree is terminal the waiter must be released
    return st.integers(0, 2).flatmap(lambda k: with_stop(scenario(P), 2) if k == 0 else with_wal(mixed(scenario(P), tier, ID), 6))


def _awaited(F):
    return [r for r in F.tr if r['k'] == 'a-await-begin']


def nontrivial(F):
    return any(any(d in F.accepted for d in F.descendants(r['ev'])) for r in _awaited(F))


def classes(F):
    cl = common_classes(F)
    for r in _awaited(F):
        ds = [d for d in F.descendants(r['ev']) if d in F.accepted]
        if ds:
            cl.append('await:with-descendants')
            evb = {b for (b, e) in F.enq if e == r['ev']}
            if any({b for (b, e) in F.enq if e == d} - evb for d in ds):
                cl.append('await:descendant-on-other-bus')
        cl.append('await:already-complete' if r['already'] else 'await:pending')
    if any(r['k'] == 'disp' and r.get('mode') == 'ff' and r.get('ok') for r in F.tr):
        cl.append('fire-and-forget-child')
    if any(r['k'] == 'disp' and r.get('xp') for r in F.tr):
        cl.append('explicit-parent')
    for r in F.tr:
        if r['k'] == 'a-expect-end':
            cl.append('expect:' + r['out'])
            b = next((x for x in reversed(F.tr[: r['i']]) if x['k'] == 'a-expect-begin' and x['actor'] == r['actor']), None)
            if b is not None and any(m[0] == r['bus'] for m in F.running_at(r['i'])):
                cl.append('expect-ended-while-a-handler-of-that-bus-was-running')
    for r in F.tr:
        if r['k'] == 'a-stop-begin':
            cl.append('stop:' + ('handler-in-flight' if r['busy'] else ('running-idle' if r['started'] else 'never-started')))
    return cl


def run_case(sc):
    return judge(sc, [oracles.c03], nontrivial, classes)
