"""C20 @retry semaphores bound concurrency and are always released (plans over successive event loops)."""
import asyncio
import collections
import itertools

from hypothesis import strategies as st

from bvt.vloop import Hang, VLoop

ID = 'C20'
LEVEL = 'exploration'
RULE = (
    'Generated plans: semaphore_limit L 1-3, scope global/class/self over 2 classes x 3 instances, two decorated functions sharing one semaphore_name, 2-8 callers per '
    'session with start times, body durations, outcomes (return, raise with retries, attempt timeouts), bodies that need time to unwind when cut off, cancellation '
    'while waiting or running or a few loop ticks after the call (the system-overload check is made due on every call), semaphore_timeout (None or off-grid), lax on/off; 1-3 successive virtual-time event '
    'loops in one process re-using the same semaphore name. Oracle: per scope key, bodies in progress that did not wait '
    'the full acquisition timeout never exceed L; a caller whose scope has a free slot starts at its call instant; a '
    'body runs without a slot only after waiting the full acquisition timeout with lax=True; non-lax acquisition '
    'timeout raises TimeoutError and the body never runs; capacity probe after quiescence in every session (L fresh '
    'callers enter at once, the L+1st waits); no RuntimeError in a later loop. Non-trivial = some caller had to wait '
    'for a slot (contention) or a later session re-used a contended semaphore; distinct by canonical JSON.'
)
ASSUMPTIONS = ['virtual time, dyadic durations; acquisition timeouts off-grid (no ties)', "the 'multiprocess' scope (real files/threads/wall clock) is outside the statement and not generated", 'unique semaphore name per case (the registry is process-global)']

_uid = itertools.count()


def q(lo, hi):
    return st.integers(lo, hi).map(lambda k: k / 8)


@st.composite
def _case(draw):
    L = draw(st.integers(1, 3))
    scope = draw(st.sampled_from(['global', 'class', 'self']))
    lax = draw(st.booleans())
    sem_timeout = draw(st.sampled_from([None, None, 0.3125, 1.0625, 2.5625, 50.0625]))
    timeout = draw(st.sampled_from([1.0, 3.0]))
    retries = draw(st.integers(0, 1))
    sessions = []
    for _ in range(draw(st.integers(1, 3))):
        callers = []
        for _ in range(draw(st.integers(2, 8))):
            callers.append({
                'at': draw(q(0, 16)),
                'obj': draw(st.integers(0, 2)),
                'd': draw(q(0, 20)),
                'out': draw(st.sampled_from(['ok', 'ok', 'ok', 'raise'])),
                'cancel': draw(st.one_of(st.none(), st.none(), st.integers(0, 300).map(lambda k: k / 8 + 1 / 64))),
                # cancellation a few event-loop ticks after the call was issued (between acquiring the slot and running the body)
                'cancel_ticks': draw(st.one_of(st.none(), st.none(), st.none(), st.integers(1, 6))),
                'u': draw(st.sampled_from([0, 0, 0.25, 0.5])),  # time the body needs to unwind when it is cancelled (cut off / caller cancelled)
                'fn': draw(st.sampled_from([0, 0, 1])),  # which of two decorated functions sharing the semaphore name is called
            })
        sessions.append(callers)
    return {'L': L, 'scope': scope, 'lax': lax, 'sem_timeout': sem_timeout, 'timeout': timeout, 'retries': retries, 'sessions': sessions}


def strategy(tier):
    return _case()


def budget(tier):
    return {'examples': 6000 if tier == 'quick' else 100000, 'wall_s': 400 if tier == 'quick' else 3000, 'shrink_s': 60}


def run_case(c):
    import bubus.helpers as helpers
    from bubus.helpers import retry

    # the periodic system-overload check sits between acquiring the slot and running the body: make it due on every call
    # and non-blocking (psutil.cpu_percent(interval=0.1) would sleep 0.1 s of wall clock)
    saved = (helpers._overload_check_interval, helpers._last_overload_check, getattr(helpers.psutil, 'cpu_percent', None) if helpers.psutil else None)
    helpers._overload_check_interval = -1.0
    helpers._last_overload_check = 0.0
    if helpers.psutil is not None:
        helpers.psutil.cpu_percent = lambda interval=None: 0.0
    try:
        return _run_case(c, retry)
    finally:
        helpers._overload_check_interval, helpers._last_overload_check = saved[0], saved[1]
        if helpers.psutil is not None and saved[2] is not None:
            helpers.psutil.cpu_percent = saved[2]


def _run_case(c, retry):
    name = f'bvt_sem_{next(_uid)}_{id(c) % 9973}'
    viol = []
    stats = collections.Counter()
    L = c['L']

    class A:
        # two distinct instances that compare equal and hash alike (a value object): 'self' scope is per INSTANCE all the same
        def __eq__(self, other):
            return type(other) is type(self)

        def __hash__(self):
            return 7

    class B:
        pass

    objs = [A(), A(), B()]

    def key(o):
        return {'global': 'g', 'class': type(o).__name__, 'self': id(o)}[c['scope']]

    semto = c['sem_timeout'] if c['sem_timeout'] is not None else max(c['timeout'], c['timeout'] * (L - 1))
    live = collections.Counter()
    running = collections.Counter()
    inflight = collections.Counter()

    deco = retry(wait=0.125, retries=c['retries'], timeout=c['timeout'], semaphore_limit=L, semaphore_name=name, semaphore_lax=c['lax'], semaphore_scope=c['scope'], semaphore_timeout=c['sem_timeout'])

    async def _body(self, rec):
        loop = asyncio.get_event_loop()
        k = key(self)
        if 'enter' not in rec:
            rec['enter'] = loop.time()
            rec['waited'] = loop.time() - rec['call']
            rec['lax_entry'] = rec['waited'] >= semto - 1e-9
            if rec['lax_entry'] and not c['lax']:
                viol.append(('C20.c', f'non-lax caller waited {rec["waited"]} >= acquisition timeout {semto} and the body still ran'))
            rec['holds'] = not rec['lax_entry']
            if rec['holds']:
                live[k] += 1
                rec['counted'] = True
                if live[k] > L:
                    viol.append(('C20.a', f'{live[k]} bodies in progress in scope {c["scope"]} key {k!r} with semaphore_limit={L} (none of them after an acquisition timeout)'))
        rec['attempts'] = rec.get('attempts', 0) + 1
        # executions of the wrapped function that are really in progress (an attempt that was cut off or cancelled and is still
        # unwinding is in progress): counted per attempt, from its first to its last statement
        counts = bool(rec.get('holds'))
        if counts:
            running[k] += 1
            if running[k] > L:
                viol.append(('C20.a', f'{running[k]} executions of the wrapped function in progress at once in scope {c["scope"]} key {k!r} with semaphore_limit={L} (an earlier attempt was still unwinding when its slot was handed on / the next attempt started)'))
        try:
            try:
                await asyncio.sleep(rec['d'])
            except asyncio.CancelledError:
                if rec.get('u'):
                    await asyncio.sleep(rec['u'])  # cleanup that needs time
                raise
            if rec['out'] == 'raise':
                raise ValueError('x')
            return 'ok'
        finally:
            if counts:
                running[k] -= 1

    # two different decorated functions that name the SAME semaphore (README: semaphore_name is how functions share one): within one
    # scope they share the L slots
    @deco
    async def body(self, rec):
        return await _body(self, rec)

    @deco
    async def other_body(self, rec):
        return await _body(self, rec)

    for si, callers in enumerate(c['sessions']):
        loop = VLoop(spin_budget=60_000)
        asyncio.set_event_loop(loop)
        recs = []

        async def run_call(o, rec):
            try:
                return await (other_body if rec.get('fn') else body)(o, rec)
            finally:
                if rec.get('counted'):
                    live[key(o)] -= 1
                    rec['counted'] = False

        async def main():
            async def one(cl):
                await asyncio.sleep(cl['at'])
                o = objs[cl['obj']]
                # callers that have called and not finished yet (holding, waiting or about to acquire): if fewer than L,
                # a slot is free for this caller whatever the others do
                rec = {'call': loop.time(), 'd': cl['d'], 'out': cl['out'], 'key': key(o), 'free_at_call': inflight[key(o)] < L, 'fn': cl.get('fn', 0), 'u': cl.get('u', 0)}
                inflight[key(o)] += 1
                recs.append(rec)
                t = asyncio.ensure_future(run_call(o, rec))
                if cl['cancel'] is not None:
                    loop.call_later(cl['cancel'], t.cancel)
                if cl.get('cancel_ticks'):

                    async def tick_cancel(n=cl['cancel_ticks']):
                        for _ in range(n):
                            await asyncio.sleep(0)
                        t.cancel()

                    asyncio.ensure_future(tick_cancel())
                try:
                    rec['res'] = ('ret', await t)
                except asyncio.CancelledError:
                    rec['res'] = ('cancelled',)
                except BaseException as e:  # noqa
                    rec['res'] = ('exc', type(e).__name__, str(e)[:60])
                rec['end'] = loop.time()
                inflight[key(o)] -= 1

            await asyncio.gather(*[one(cl) for cl in callers])
            await asyncio.sleep(60)
            # capacity probe per key
            for o in objs:
                k = key(o)
                probes = [{'call': loop.time(), 'd': 1.0, 'out': 'ok', 'key': k} for _ in range(L + 1)]
                ts = [asyncio.ensure_future(run_call(o, p)) for p in probes]
                await asyncio.sleep(0.5)
                entered = [p for p in probes if p.get('enter') == p['call']]
                if len(entered) != L:
                    viol.append(('C20.d', f'capacity probe in session {si}: {len(entered)} of {L + 1} fresh callers entered at once for key {k!r}, expected exactly {L} (slots leaked or over-released)'))
                rs = await asyncio.gather(*ts, return_exceptions=True)
                for r in rs:
                    if isinstance(r, RuntimeError):
                        viol.append(('C20.e', f'probe in session {si} raised RuntimeError: {str(r)[:80]}'))
                await asyncio.sleep(60)

        try:
            try:
                loop.run_until_complete(main())
            except Hang as e:
                viol.append(('C20.d', f'session {si}: event loop made no progress: {e}'))
        finally:
            for t in asyncio.all_tasks(loop):
                t.cancel()
            try:
                loop.run_until_complete(asyncio.sleep(0))
            except BaseException:  # noqa
                pass
            loop.close()
            asyncio.set_event_loop(None)
        for r in recs:
            res = r.get('res')
            if res and res[0] == 'exc' and res[1] == 'RuntimeError':
                viol.append(('C20.e', f'caller in session {si} raised RuntimeError: {res[2]}'))
            if res and res[0] == 'exc' and res[1] == 'TimeoutError' and 'semaphore' in res[2]:
                stats['acquisition-timeout'] += 1
                if c['lax']:
                    viol.append(('C20.c', 'lax caller got an acquisition TimeoutError'))
                if 'enter' in r:
                    viol.append(('C20.c', 'acquisition TimeoutError raised although the body ran'))
                if abs((r['end'] - r['call']) - semto) > 1e-9:
                    viol.append(('C20.c', f'acquisition timeout after {r["end"] - r["call"]}, configured {semto}'))
            if 'enter' in r and r['free_at_call'] and r['waited'] > 1e-9:
                viol.append(('C20.b', f'caller in session {si} found a free slot in its scope (key {r["key"]!r}) at t={r["call"]} but only started after waiting {r["waited"]}'))
            if r.get('lax_entry'):
                stats['lax-entry'] += 1
            if r.get('waited', 0) > 1e-9:
                stats['waited'] += 1
            if res and res[0] == 'cancelled':
                stats['cancelled-while-' + ('running' if 'enter' in r else 'waiting')] += 1
            if r.get('attempts', 0) > 1:
                stats['retried-while-holding'] += 1
        if si > 0:
            stats['later-session'] += 1
        for k, n in live.items():
            if n != 0:
                viol.append(('C20.a', f'harness bookkeeping: {n} bodies still counted in progress for key {k!r} after session {si}'))
                live[k] = 0
    cl = [k for k in stats if stats[k]] + [f'scope:{c["scope"]}', f'L={L}', 'lax' if c['lax'] else 'strict']
    if any(len({cl_.get('fn', 0) for cl_ in callers}) == 2 for callers in c['sessions']):
        cl.append('two-functions-sharing-the-semaphore-name-in-one-session')
    seen, outv = set(), []
    for v in viol:
        if v[0] not in seen:
            seen.add(v[0])
            outv.append(v)
    return {'viol': outv, 'nontrivial': stats['waited'] > 0, 'classes': cl}
