"""C14 Dispatch accepts or rejects atomically; accepted events are never dropped."""
from hypothesis import strategies as st

from bvt.histworld import run_history

ID = 'C14'
LEVEL = 'exploration'
RULE = (
    'Generated call histories on a default bus (history 50: queue limit 50, backlog limit 100) and small-N buses: '
    'bursts of 1-130 dispatches from actor code and from inside a handler (payload-driven fan-out up to 120) with slow '
    'handlers so that the queue and backlog limits are reached, time advances, awaits, and re-dispatch of the very event '
    'objects whose dispatch was rejected earlier. Reference model: every dispatch '
    'either returned - then the event is delivered exactly once and completes - or raised - then it is not in '
    'event_history, not among the children of the running handler, has no results, its event_path does not name the bus, '
    'and the event whose handler '
    'attempted it still completes. Non-trivial = at least one rejection; distinct by canonical JSON.'
)
ASSUMPTIONS = ['virtual time', 'rejections are whatever exception dispatch raises (RuntimeError backlog, QueueFull)']

dur = st.sampled_from([0, 0.01, 0.05, 0.1, 0.2])
op = st.one_of(
    st.tuples(st.just('adv'), st.sampled_from([0.01, 0.1, 0.3, 1.0])).map(list),
    st.tuples(st.just('burst'), st.sampled_from([1, 2, 5, 30, 49, 50, 51, 60, 99, 101, 130]), dur, st.sampled_from([0, 0, 1, 3]), st.booleans(), st.just(False), st.none()).map(list),
    st.tuples(st.just('burst'), st.sampled_from([1, 2, 3]), dur, st.sampled_from([40, 49, 51, 60, 99, 101, 120]), st.booleans(), st.just(False), st.none()).map(list),
    st.tuples(st.just('await'), st.integers(0, 200)).map(list),
    st.tuples(st.just('retry'), st.sampled_from([1, 3, 40])).map(list),
    st.tuples(st.just('burstnh'), st.sampled_from([1, 30, 51, 101])).map(list),
)
sc_default = st.fixed_dictionaries({'N': st.sampled_from([50, 50, 50, 10, 3]), 'maxdepth': st.sampled_from([1, 1, 2]), 'ops': st.lists(op, min_size=1, max_size=5), 'cap': st.just(700)})


def budget(tier):
    return {'examples': 1500 if tier == 'quick' else 30000, 'wall_s': 400 if tier == 'quick' else 3000, 'shrink_s': 90}


def strategy(tier):
    return sc_default


MINE = ('C14.a', 'C14.b', 'C14.c', 'C14.d', 'C14.e')


def run_case(sc):
    out = run_history(sc)
    viol = []
    for v in out['viol']:
        if v[0] in MINE:
            viol.append(v)
        elif v[0] in ('C13.c', 'HANG'):
            viol.append(('C14.a', 'accepted event not processed to completion: ' + v[1]))
    if out.get('stalled'):
        viol.append(('C14.a', f'run never became quiescent: {out["stalled"]}'))
    info = out['info']
    cl = [f'N={sc["N"]}']
    if info['rejected']:
        cl.append('rejection')
    if info['rejected-in-handler']:
        cl.append('rejection-inside-handler')
    if info['rejected'] - info['rejected-in-handler'] > 0:
        cl.append('rejection-from-actor')
    if info['evictions']:
        cl.append('evictions')
    if info['retried-rejected']:
        cl.append('rejected-object-dispatched-again')
    return {'viol': viol, 'nontrivial': info['rejected'] > 0, 'classes': cl, 'hang': bool(out.get('hang') or out.get('stalled')), 'log': out['log'][:200]}
