"""C14 Dispatch accepts or rejects atomically; accepted events are never dropped."""
from hypothesis import strategies as st

from bvt.histworld import run_history

ID = 'C14'
LEVEL = 'exploration'
RULE = (
    'Generated call histories on a default bus (history 50: queue limit 50, backlog limit 100) and small-N buses: '
    'bursts of 1-130 dispatches from actor code and from inside a handler (payload-driven fan-out up to 120) with slow '
    'handlers so that the queue and backlog limits are reached, time advances, awaits, and re-dispatch of the very event '
    'objects whose dispatch was rejected earlier. Reference model: every dispatch '
    'either returned - then the event is delivered exactly once and completes - or raised - then it is not in '
    'event_history, not among the children of the running handler, has no results, its event_path does not name the bus, '
    'and the event whose handler '
    'attempted it still completes. A quarter of the cases are 2-3-bus whole-program scenarios instead (the same object handed to another bus '
    'after it completed, in-handler fan-out beyond the backlog limit, forwarding): every (bus, event) for which dispatch returned has all matching '
    'handlers of that bus run and the event completes; objects refused everywhere leave no trace. Non-trivial = at least one rejection, or an object '
    'accepted by a second bus after the first; distinct by canonical JSON.'
)
ASSUMPTIONS = ['virtual time', 'rejections are whatever exception dispatch raises (RuntimeError backlog, QueueFull)']

dur = st.sampled_from([0, 0.01, 0.05, 0.1, 0.2])
op = st.one_of(
    st.tuples(st.just('adv'), st.sampled_from([0.01, 0.1, 0.3, 1.0])).map(list),
    st.tuples(st.just('burst'), st.sampled_from([1, 2, 5, 30, 49, 50, 51, 60, 99, 101, 130]), dur, st.sampled_from([0, 0, 1, 3]), st.booleans(), st.just(False), st.none()).map(list),
    st.tuples(st.just('burst'), st.sampled_from([1, 2, 3]), dur, st.sampled_from([40, 49, 51, 60, 99, 101, 120]), st.booleans(), st.just(False), st.none()).map(list),
    st.tuples(st.just('await'), st.integers(0, 200)).map(list),
    st.tuples(st.just('retry'), st.sampled_from([1, 3, 40])).map(list),
    st.tuples(st.just('burstnh'), st.sampled_from([1, 30, 51, 101])).map(list),
)
sc_default = st.fixed_dictionaries({'N': st.sampled_from([50, 50, 50, 10, 3]), 'maxdepth': st.sampled_from([1, 1, 2]), 'ops': st.lists(op, min_size=1, max_size=5), 'cap': st.just(700)})


def budget(tier):
    return {'examples': 3000 if tier == 'quick' else 60000, 'wall_s': 400 if tier == 'quick' else 3000, 'shrink_s': 90}


# The call-history world above has one bus. A quarter of the cases are whole-program scenarios with 2-3 buses instead: the same event
# object is handed to a second bus after it completed on the first, handlers fan out more children than a bus accepts, events are
# forwarded; the promise is the same - whatever a bus's dispatch() returned for is processed by that bus.
from bvt.gen import Profile, scenario  # noqa: E402

P_MULTI = Profile(deep_wild=True, twin=0.15, min_buses=2, max_buses=3, par=0.2, fwd=0.3, fan=0.25, hist=[None, 50, 50], maxdepth=[1, 2, 3], wild=0.2, raises=0.1, max_actors=3, max_actor_ops=6, actor_ops=['disp', 'disp', 'dispany', 'sleep', 'await', 'await', 'redisp', 'redisp', 'redisp', 'yield'], dual=0.2)


def _run_engine_case(sc):
    from bvt.engine import fmt_trace, run_scenario
    from bvt.facts import Facts
    from bvt.oracles import TERMINAL, hang_text

    out = run_scenario(sc)
    F = Facts(sc, out)
    viol, cl = [], ['multi-bus-scenario']
    if F.hang:
        viol.append(('C14.a', f'run never became quiescent: {hang_text(F)}'))
    else:
        for (bus, ev), idxs in F.enq.items():
            fin = F.final.get(ev)
            for hi in sorted(F.expected(bus, ev)):
                if not F.enters.get((bus, ev, hi)):
                    rows = [r for r in (fin['results'] if fin else []) if r['h'] == f'h{hi}' and r['bus'] == bus]
                    if rows and rows[0]['st'] == 'error' and rows[0]['err'] == 'RuntimeError' and rows[0]['errkey'] is None:
                        continue  # refused by the library's recursion guard, recorded as that handler's error: processed, not dropped
                    viol.append(('C14.a', f'event {ev}: dispatch on {bus} returned (trace idx {idxs}) but the bus never ran handler h{hi} for it - accepted, then dropped'))
                    break
            if fin is not None and (fin['status'] != 'completed' or not fin['sig'] or any(r['st'] not in TERMINAL for r in fin['results'])):
                viol.append(('C14.a', f'event {ev} accepted on {bus} never completed: status={fin["status"]} signalled={fin["sig"]}'))
    # refused dispatches leave no trace (judged for objects no bus ever accepted)
    refused = {}
    for r in F.tr:
        if r['k'] == 'disp' and r.get('ok') is False:
            refused.setdefault(r['ev'], r)
    for ev, r in refused.items():
        if ev in F.accepted:
            continue
        fin = F.final.get(ev)
        if fin is not None and fin['path']:
            viol.append(('C14.e', f'dispatch of event {ev} was refused ({r.get("exc")}) everywhere, yet its event_path is {fin["path"]}'))
        if fin is not None and fin['results']:
            viol.append(('C14.b', f'refused event {ev} has handler results'))
        for ptag, s in F.final.items():
            if any(ev in rr['kids'] for rr in s['results']):
                viol.append(('C14.c', f'dispatch of event {ev} inside a handler of event {ptag} was refused ({r.get("exc")}) but it is recorded as a child of that event'))
    if any(r['k'] == 'disp' and r.get('twin') and r.get('rep') and r.get('ok') for r in F.tr):
        cl.append('replica-and-original-queued-on-one-bus')
    nrej = len(refused)
    if nrej:
        cl.append('rejection')
        if any(not isinstance(r['by'], str) for r in refused.values()):
            cl.append('rejection-inside-handler')
    for r in F.tr:
        if r['k'] == 'redisp' and r.get('ok'):
            first_bus = next((b for (b, e) in F.enq if e == r['ev']), None)
            cl.append('same-object-dispatched-again:' + ('other-bus' if first_bus != r['bus'] else 'same-bus') + (':after-complete' if r.get('was_complete') else ':in-flight'))
    nontrivial = nrej > 0 or any(c.startswith('same-object-dispatched-again:other-bus') for c in cl)
    return {'viol': viol[:1], 'nontrivial': nontrivial, 'classes': sorted(set(cl)), 'hang': bool(F.hang), 'log': fmt_trace(out)}


def strategy(tier):
    from bvt.props._scen import with_wal

    # (every second multi-bus scenario carries events with payloads that cannot be serialised: accepting them must still be all-or-nothing)
    return st.integers(0, 3).flatmap(lambda k: with_wal(scenario(P_MULTI), 2) if k == 0 else sc_default)


MINE = ('C14.a', 'C14.b', 'C14.c', 'C14.d', 'C14.e')


def run_case(sc):
    if 'buses' in sc:
        return _run_engine_case(sc)
    out = run_history(sc)
    viol = []
    for v in out['viol']:
        if v[0] in MINE:
            viol.append(v)
        elif v[0] in ('C13.c', 'HANG'):
            viol.append(('C14.a', 'accepted event not processed to completion: ' + v[1]))
    if out.get('stalled'):
        viol.append(('C14.a', f'run never became quiescent: {out["stalled"]}'))
    info = out['info']
    cl = [f'N={sc["N"]}']
    if info['rejected']:
        cl.append('rejection')
    if info['rejected-in-handler']:
        cl.append('rejection-inside-handler')
    if info['rejected'] - info['rejected-in-handler'] > 0:
        cl.append('rejection-from-actor')
    if info['evictions']:
        cl.append('evictions')
    if info['retried-rejected']:
        cl.append('rejected-object-dispatched-again')
    return {'viol': viol, 'nontrivial': info['rejected'] > 0, 'classes': cl, 'hang': bool(out.get('hang') or out.get('stalled')), 'log': out['log'][:200]}
