"""C12 Handler results are type-checked and accessor views are consistent (input property)."""
from __future__ import annotations

import asyncio
import itertools
import typing
from typing import Any, Literal, Optional, Union

from hypothesis import strategies as st
from pydantic import BaseModel, TypeAdapter

from bubus import BaseEvent, EventBus

from bvt.vloop import Hang, fresh_loop

ID = 'C12'
LEVEL = 'exploration'
RULE = (
    'Hypothesis-generated (declared result type from a grammar of builtins, containers, unions, Optional, Literal, '
    'pydantic models, enums (incl. two distinct enum classes with the same name), nested; declared both as BaseEvent[T] class and via the event_result_type field) x 1-5 handlers '
    '(on a serial or a parallel_handlers bus, where completion order differs from handler order) returning strictly conforming / coercible / hopeless values, None, exception objects, events, or raising; then '
    'ALL 8 flag combinations x 5 include filters x 6 accessors are called on the completed event and compared with a '
    'reference implementation computed from the recorded results. Typing oracle: independent structural conformance '
    'checker + differential against TypeAdapter. Non-trivial = >= 2 results of different outcome classes, or a '
    'non-class result type (union/Optional/Literal/generic alias); distinct by canonical JSON.'
)
ASSUMPTIONS = ['accessors are evaluated after the event completed (they are views)', 'handler names are unique', 'coercible values may end completed (conforming) or error; both accepted']


class M(BaseModel):
    a: int
    b: str = 'x'


class TInt(BaseEvent[int]):
    pass


class TStr(BaseEvent[str]):
    pass


class TListInt(BaseEvent[list[int]]):
    pass


class TDict(BaseEvent[dict[str, int]]):
    pass


class TOptInt(BaseEvent[int | None]):
    pass


class TUnion(BaseEvent[Union[int, str]]):
    pass


class TM(BaseEvent[M]):
    pass


class TLit(BaseEvent[Literal['a', 'b']]):
    pass


class TNone(BaseEvent):
    pass


def _twin_enum(members):
    import enum

    return enum.Enum('Status', members)  # two distinct classes with the same name and str()


StatusA = _twin_enum({'RUNNING': 'running', 'DONE': 'done'})
StatusB = _twin_enum({'PENDING': 'pending', 'SHIPPED': 'shipped'})


class Carrier(BaseEvent):
    n: int = 0


# name -> (type, event class or None, strict strategy, coercible strategy or None, hopeless strategy or None)
_ints = st.integers(-5, 5)
_txt = st.text(alphabet='abcxyz', max_size=3)
TYPES: dict[str, tuple] = {
    'int': (int, TInt, _ints, st.sampled_from(['12', 3.0, True]), st.sampled_from(['zz', [1], {'a': 1}, 1.5, b'q', '', [], {}])),
    'str': (str, TStr, _txt, None, st.sampled_from([1, [1], {'a': 1}, 2.5, 0, [], {}])),
    'bool': (bool, None, st.booleans(), st.sampled_from([1, 0, 'true', 'no']), st.sampled_from(['zz', [1], 7, {'a': 1}])),
    'float': (float, None, st.sampled_from([0.5, -1.25, 2.0]), st.sampled_from([3, '1.5']), st.sampled_from(['zz', [1], {'a': 1}])),
    'bytes': (bytes, None, st.sampled_from([b'', b'ab']), st.sampled_from(['ab']), st.sampled_from([1, [1], {'a': 1}])),
    'list[int]': (list[int], TListInt, st.lists(st.integers(0, 3), max_size=3), st.sampled_from([(1, 2), ['1', 2]]), st.sampled_from(['zz', 5, {'a': 1}, ['q'], '', 0, {}])),
    'dict[str,int]': (dict[str, int], TDict, st.dictionaries(st.sampled_from('abc'), st.integers(0, 3), max_size=3), st.sampled_from([{'a': '1'}]), st.sampled_from(['zz', 5, [1], {'a': 'q'}, '', 0, []])),
    'tuple[int,str]': (tuple[int, str], None, st.tuples(st.integers(0, 3), _txt), st.sampled_from([[1, 'a']]), st.sampled_from(['zz', 5, [1], (1, 2, 3)])),
    'int|None': (int | None, TOptInt, _ints, st.sampled_from(['3']), st.sampled_from(['zz', [1]])),
    'Optional[str]': (Optional[str], None, _txt, None, st.sampled_from([[1], {'a': 1}, 5])),
    'Union[int,str]': (Union[int, str], TUnion, st.one_of(st.integers(0, 3), _txt), None, st.sampled_from([[1], {'a': 1}, 1.5, [], {}])),
    "Literal['a','b']": (Literal['a', 'b'], TLit, st.sampled_from(['a', 'b']), None, st.sampled_from(['c', 1, [1]])),
    'M': (M, TM, st.builds(M, a=st.integers(0, 3), b=_txt), st.sampled_from([{'a': 1}, {'a': '2', 'b': 'q'}]), st.sampled_from(['zz', 5, {'b': 'q'}, [1], {}, '', 0])),
    'list[M]': (list[M], None, st.lists(st.builds(M, a=st.integers(0, 3)), max_size=2), st.sampled_from([[{'a': 1}]]), st.sampled_from(['zz', 5, [{'b': 1}], {'a': 1}])),
    'dict[str,list[int]]': (dict[str, list[int]], None, st.dictionaries(st.sampled_from('ab'), st.lists(st.integers(0, 2), max_size=2), max_size=2), None, st.sampled_from(['zz', {'a': 1}, [1], {'a': ['q']}])),
    'enumA': (StatusA, None, st.sampled_from(list(StatusA)), st.sampled_from(['running', 'done']), st.sampled_from(['shipped', 'pending', 5, [1]])),
    'enumB': (StatusB, None, st.sampled_from(list(StatusB)), st.sampled_from(['pending', 'shipped']), st.sampled_from(['running', 'done', 5, [1]])),
    'none': (None, TNone, st.one_of(st.integers(0, 3), _txt, st.lists(st.integers(0, 2), max_size=2), st.dictionaries(st.sampled_from('ab'), st.integers(0, 2), max_size=2), st.sampled_from([1.5, b'x', (1, 2)])), None, None),
}
NON_CLASS = {'list[int]', 'dict[str,int]', 'tuple[int,str]', 'int|None', 'Optional[str]', 'Union[int,str]', "Literal['a','b']", 'list[M]', 'dict[str,list[int]]'}


def _enc(v):
    """JSON-able encoding of a generated value (replayable)."""
    if isinstance(v, M):
        return {'__M__': {'a': v.a, 'b': v.b}}
    if isinstance(v, StatusA):
        return {'__enumA__': v.value}
    if isinstance(v, StatusB):
        return {'__enumB__': v.value}
    if isinstance(v, bytes):
        return {'__bytes__': v.decode('latin1')}
    if isinstance(v, tuple):
        return {'__tuple__': [_enc(x) for x in v]}
    if isinstance(v, list):
        return [_enc(x) for x in v]
    if isinstance(v, dict):
        return {'__dict__': [[k, _enc(x)] for k, x in v.items()]}
    return v


def _dec(v):
    if isinstance(v, dict):
        if '__M__' in v:
            return M(**v['__M__'])
        if '__enumA__' in v:
            return StatusA(v['__enumA__'])
        if '__enumB__' in v:
            return StatusB(v['__enumB__'])
        if '__bytes__' in v:
            return v['__bytes__'].encode('latin1')
        if '__tuple__' in v:
            return tuple(_dec(x) for x in v['__tuple__'])
        if '__dict__' in v:
            return {k: _dec(x) for k, x in v['__dict__']}
    if isinstance(v, list):
        return [_dec(x) for x in v]
    return v


@st.composite
def _case(draw):
    tname = draw(st.sampled_from(sorted(TYPES)))
    T, cls, strict, coerc, hopeless = TYPES[tname]
    via_class = cls is not None and draw(st.booleans())
    rets = []
    for _ in range(draw(st.integers(1, 5))):
        kinds = ['strict', 'strict', 'strict', 'none', 'raise', 'excobj', 'event']
        if coerc is not None:
            kinds.append('coerc')
        if hopeless is not None:
            kinds += ['hopeless', 'hopeless']
        k = draw(st.sampled_from(kinds))
        val = None
        if k == 'strict':
            val = _enc(draw(strict))
        elif k == 'coerc':
            val = _enc(draw(coerc))
        elif k == 'hopeless':
            val = _enc(draw(hopeless))
        rets.append([k, val, draw(st.booleans())])  # third = async handler?
    # make dict/list results more likely to exercise the flat accessors
    # on a parallel_handlers bus async handlers finish in an order unrelated to registration order (each waits `delay` ticks)
    par = draw(st.integers(0, 3)) == 0
    delays = [draw(st.integers(0, 4)) for _ in rets] if par else []
    out = {'type': tname, 'via_class': via_class, 'rets': rets, 'wild': draw(st.integers(0, len(rets))), 'par': par, 'delays': delays}
    if not via_class and T is not None and draw(st.integers(0, 3)) == 0:
        # the type is declared by a subclass that overrides, through an explicit event_result_type field default, the type its parent
        # class took from its generic parameter; optionally an instance of the parent class has been created (and used) before
        out['subclass_of'] = draw(st.sampled_from(['TInt', 'TStr', 'TListInt', 'TM']))
        out['parent_first'] = draw(st.booleans())
    return out


def strategy(tier):
    return _case()


def budget(tier):
    return {'examples': 12000 if tier == 'quick' else 200000, 'wall_s': 300 if tier == 'quick' else 3000, 'shrink_s': 30}


# ---------------------------------------------------------------------------
# independent structural conformance checker


def conforms(T, v) -> bool:
    if T is None or T is Any:
        return True
    if T is type(None):
        return v is None
    origin = typing.get_origin(T)
    args = typing.get_args(T)
    if origin is Union or (origin is not None and str(origin) == "<class 'types.UnionType'>") or type(T).__name__ == 'UnionType':
        return any(conforms(a, v) for a in args)
    if origin is Literal:
        return any(v == a and type(v) is type(a) for a in args)
    if origin is list:
        return isinstance(v, list) and all(conforms(args[0], x) for x in v)
    if origin is dict:
        return isinstance(v, dict) and all(conforms(args[0], k) and conforms(args[1], x) for k, x in v.items())
    if origin is tuple:
        return isinstance(v, tuple) and len(v) == len(args) and all(conforms(a, x) for a, x in zip(args, v))
    if T is float:
        return isinstance(v, float)
    if T is int:
        return isinstance(v, int) and not isinstance(v, bool)
    if T is bool:
        return isinstance(v, bool)
    if isinstance(T, type):
        return isinstance(v, T)
    return True


# ---------------------------------------------------------------------------
# reference accessor model (over the recorded results)


class Row:
    def __init__(self, r):
        self.handler_id = r.handler_id
        self.handler_name = r.handler_name
        self.status = r.status
        self.result = r.result
        self.error = r.error


def _truthy(r) -> bool:
    return r.status == 'completed' and r.result is not None and not isinstance(r.result, BaseException) and r.error is None and not isinstance(r.result, BaseEvent)


class RefRaise(Exception):
    def __init__(self, kind, obj=None):
        self.kind = kind  # 'error-object' | 'ValueError'
        self.obj = obj


def ref_filtered(rows, include, ria, rin):
    inc = [r for r in rows if (include(r) if include is not None else _truthy(r))]
    errs = [r for r in rows if r.error is not None or isinstance(r.result, BaseException)]
    if ria and errs:
        raise RefRaise('error-object', errs[0].error or errs[0].result)
    if rin and not inc:
        raise RefRaise('ValueError')
    return inc


def ref_call(name, rows, include, ria, rin, conflicts):
    if name == 'event_results_flat_dict':
        base = include if include is not None else _truthy
        inc = ref_filtered(rows, lambda r: isinstance(r.result, dict) and base(r), ria, rin)
        merged: dict = {}
        for r in inc:
            if not r.result:
                continue
            if conflicts and (merged.keys() & r.result.keys()):
                raise RefRaise('ValueError')
            merged.update(r.result)
        return merged
    if name == 'event_results_flat_list':
        base = include if include is not None else _truthy
        inc = ref_filtered(rows, lambda r: isinstance(r.result, list) and base(r), ria, rin)
        out = []
        for r in inc:
            out.extend(r.result)
        return out
    inc = ref_filtered(rows, include, ria, rin)
    if name == 'event_results_list':
        return [r.result for r in inc]
    if name == 'event_result':
        return inc[0].result if inc else None
    if name == 'event_results_by_handler_id':
        return {r.handler_id: r.result for r in inc}
    if name == 'event_results_by_handler_name':
        return {r.handler_name: r.result for r in inc}
    raise AssertionError(name)


INCLUDES = {
    'default': None,
    'all': lambda r: True,
    'completed': lambda r: r.status == 'completed',
    'isint': lambda r: isinstance(r.result, int),
    'errors': lambda r: r.status == 'error',
}
ACCESSORS = ['event_result', 'event_results_list', 'event_results_by_handler_id', 'event_results_by_handler_name', 'event_results_flat_dict', 'event_results_flat_list']


def _same(a, b) -> bool:
    """equal value and, for containers of results, element identity/equality in order"""
    if type(a) is not type(b):
        return False
    if isinstance(a, dict):
        return list(a.keys()) == list(b.keys()) and all(_same_item(a[k], b[k]) for k in a)
    if isinstance(a, list):
        return len(a) == len(b) and all(_same_item(x, y) for x, y in zip(a, b))
    return _same_item(a, b)


def _same_item(x, y) -> bool:
    if x is y:
        return True
    try:
        return type(x) is type(y) and x == y
    except Exception:  # noqa
        return False


# ---------------------------------------------------------------------------


def run_case(c):
    tname = c['type']
    T, cls, *_ = TYPES[tname]
    viol: list = []
    classes = [f'type:{tname}', 'declared:' + ('class' if c['via_class'] else ('subclass-override' + ('+parent-used-first' if c.get('parent_first') else '') if c.get('subclass_of') else 'field'))]
    info: dict = {}
    with fresh_loop() as loop:

        async def main():
            bus = EventBus(name='B', parallel_handlers=bool(c.get('par')))
            raised: dict = {}
            retvals: dict = {}
            carrier = Carrier(n=7)
            if c['via_class']:
                ev = cls()
                key = cls.__name__
            elif c.get('subclass_of'):
                # a fresh parent class per case, so that whatever the library caches per class cannot leak between cases
                import types as _types

                PT = {'TInt': int, 'TStr': str, 'TListInt': list[int], 'TM': M}[c['subclass_of']]
                parent = _types.new_class('ParEv', (BaseEvent[PT],), {}, lambda ns: ns.update({'__module__': __name__}))
                if c.get('parent_first'):
                    await bus.dispatch(parent())  # nobody handles it; the parent class has been instantiated and used
                sub = type('SubEv', (parent,), {'__annotations__': {'event_result_type': Any}, 'event_result_type': T, '__module__': __name__})
                ev = sub()
                key = 'SubEv'
            else:
                ev = BaseEvent(event_type='Ev', event_result_type=T)
                key = 'Ev'
            for i, (k, val, is_async) in enumerate(c['rets']):

                def mk(i=i, k=k, val=val, is_async=is_async):
                    def body():
                        if k == 'raise':
                            ex = ValueError(f'e{i}')
                            raised[i] = ex
                            raise ex
                        if k == 'excobj':
                            ex = KeyError(f'o{i}')
                            raised[i] = ex
                            return ex
                        if k == 'none':
                            return None
                        if k == 'event':
                            return carrier
                        v = _dec(val)
                        retvals[i] = v
                        return v

                    if is_async:

                        async def h(e, i=i):
                            for _ in range(1 + (c.get('delays') or [0] * 9)[i] if c.get('par') else 1):
                                await asyncio.sleep(0)
                            return body()
                    else:

                        def h(e):
                            return body()

                    h.__name__ = f'h{i}'
                    h.__qualname__ = f'h{i}'
                    return h

                bus.on('*' if i >= c['wild'] else key, mk())
            if tname in ('enumA', 'enumB'):
                # a result for the twin type (same name, same str(), different class) is recorded first in this very case
                twin, tval = (StatusB, StatusB.SHIPPED) if tname == 'enumA' else (StatusA, StatusA.DONE)
                pbus = EventBus(name='P')

                def primer(e, tval=tval):
                    return tval

                pbus.on('Prime', primer)
                await pbus.dispatch(BaseEvent(event_type='Prime', event_result_type=twin))
                await pbus.stop(clear=True)
            got = await bus.dispatch(ev)
            info['same'] = got is ev
            results = list(ev.event_results.values())
            info['rows'] = [(r.handler_name.split('.')[-1], r.status, r.result, r.error) for r in results]
            # ---- typing oracle
            names = [r.handler_name.split('.')[-1] for r in results]
            if names != [f'h{i}' for i in range(len(c['rets']))]:
                viol.append(('C12.order', f'recorded results {names} are not in handler registration order'))
            for i, (k, val, _a) in enumerate(c['rets']):
                r = next((x for x in results if x.handler_name.split('.')[-1] == f'h{i}'), None)
                if r is None:
                    viol.append(('C12.a', f'no result recorded for handler h{i}'))
                    continue
                if r.status == 'completed':
                    if not (r.result is None or isinstance(r.result, BaseEvent) or conforms(T, r.result)):
                        viol.append(('C12.a', f'h{i}: completed result {r.result!r} does not conform to declared type {tname}'))
                    if r.error is not None:
                        viol.append(('C12.a', f'h{i}: completed result carries error {r.error!r}'))
                elif r.status == 'error':
                    if r.result is not None:
                        viol.append(('C12.c', f'h{i}: error result still holds value {r.result!r}'))
                else:
                    viol.append(('C12.a', f'h{i}: result status {r.status} after completion'))
                if k == 'strict':
                    v = retvals[i]
                    if T is None:
                        if not (r.status == 'completed' and r.result is v):
                            viol.append(('C12.d', f'h{i}: no declared type, returned {v!r}, stored {r.result!r} status {r.status} (identity expected)'))
                    elif not (r.status == 'completed' and _same_item(r.result, v)):
                        viol.append(('C12.b', f'h{i}: strictly conforming value {v!r} for type {tname} ended {r.status} with {r.result!r} / {r.error!r}'))
                elif k == 'hopeless':
                    if not (r.status == 'error' and r.result is None and r.error is not None):
                        viol.append(('C12.c', f'h{i}: non-conforming value {_dec(val)!r} for type {tname} ended {r.status} with value {r.result!r}'))
                elif k == 'coerc':
                    v = retvals[i]
                    try:
                        want = TypeAdapter(T).validate_python(v)
                        ok = True
                    except Exception:  # noqa
                        ok = False
                    if ok and not (r.status == 'completed' and _same_item(r.result, want)):
                        viol.append(('C12.k', f'h{i}: {v!r} validates as {tname} -> {want!r} but result is {r.status} {r.result!r}'))
                    if not ok and r.status != 'error':
                        viol.append(('C12.k', f'h{i}: {v!r} does not validate as {tname} but result is {r.status} {r.result!r}'))
                elif k == 'none':
                    if not (r.status == 'completed' and r.result is None):
                        viol.append(('C12.b', f'h{i}: returned None, result is {r.status} {r.result!r}'))
                elif k == 'event':
                    if not (r.status == 'completed' and r.result is carrier):
                        viol.append(('C12.b', f'h{i}: returned an event, result is {r.status} {r.result!r}'))
                elif k in ('raise', 'excobj'):
                    if not (r.status == 'error' and r.error is raised.get(i) and r.result is None):
                        viol.append(('C12.c', f'h{i}: {k} -> result {r.status} error {r.error!r} value {r.result!r}'))
            # ---- accessor oracle: all flag combinations x include family x accessors, on the recorded results
            import copy

            def _snap(v):
                try:
                    return copy.deepcopy(v) if isinstance(v, (list, dict, tuple, set)) else v
                except Exception:  # noqa
                    return v

            rows = [Row(r) for r in results]
            for row in rows:
                row.result = _snap(row.result)  # the reference model works on a private copy of what was recorded
            before = [(r.id, r.status, id(r.result), id(r.error)) for r in results]
            before_values = [_snap(r.result) for r in results]
            ncalls = 0
            for name in ACCESSORS:
                for incname, inc in INCLUDES.items():
                    for ria, rin, conflicts in itertools.product([True, False], repeat=3):
                        if name != 'event_results_flat_dict' and not conflicts:
                            continue
                        kw: dict = {'raise_if_any': ria, 'raise_if_none': rin}
                        if inc is not None:
                            kw['include'] = inc
                        if name == 'event_results_flat_dict':
                            kw['raise_if_conflicts'] = conflicts
                        try:
                            want = ('ok', ref_call(name, rows, inc, ria, rin, conflicts))
                        except RefRaise as rr:
                            want = ('raise', rr)
                        try:
                            gotv = ('ok', await getattr(ev, name)(**kw))
                        except asyncio.CancelledError:
                            raise
                        except BaseException as ex:  # noqa
                            gotv = ('raise', ex)
                        ncalls += 1
                        tag = f'{name}(include={incname}, raise_if_any={ria}, raise_if_none={rin}' + (f', raise_if_conflicts={conflicts})' if name == 'event_results_flat_dict' else ')')
                        if want[0] == 'raise':
                            rr = want[1]
                            if gotv[0] != 'raise':
                                viol.append((f'C12.acc.{name}', f'{tag} returned {gotv[1]!r}; the reference model raises {rr.kind}'))
                            elif rr.kind == 'error-object' and gotv[1] is not rr.obj:
                                viol.append((f'C12.acc.{name}', f'{tag} raised {gotv[1]!r}; expected the first recorded error object {rr.obj!r}'))
                            elif rr.kind == 'ValueError' and not isinstance(gotv[1], ValueError):
                                viol.append((f'C12.acc.{name}', f'{tag} raised {type(gotv[1]).__name__}: {gotv[1]}; the reference model raises ValueError'))
                        else:
                            if gotv[0] == 'raise':
                                viol.append((f'C12.acc.{name}', f'{tag} raised {type(gotv[1]).__name__}: {str(gotv[1])[:120]}; the reference model returns {want[1]!r}'))
                            elif not _same(gotv[1], want[1]):
                                viol.append((f'C12.acc.{name}', f'{tag} returned {gotv[1]!r}; the reference model returns {want[1]!r}'))
            after = [(r.id, r.status, id(r.result), id(r.error)) for r in ev.event_results.values()]
            if after != before:
                viol.append(('C12.pure', 'calling the accessors changed the recorded results'))
            for r0, r1 in zip(before_values, [r.result for r in ev.event_results.values()]):
                if isinstance(r0, (list, dict, tuple, set)) and r0 != r1:
                    viol.append(('C12.pure', f'calling the accessors mutated a recorded result in place: {r0!r} became {r1!r}'))
                    break
            info['ncalls'] = ncalls
            await bus.stop(clear=True)

        try:
            loop.run_until_complete(main())
        except Hang as e:
            viol.append(('C12.hang', f'dispatch/accessor never returned: {e}'))
        finally:
            EventBus.all_instances.clear()
    # dedupe accessor violations: keep first per clause
    seen = set()
    out = []
    for v in viol:
        if v[0] in seen:
            continue
        seen.add(v[0])
        out.append(v)
    kinds = {k for k, _v, _a in c['rets']}
    statuses = {r[1] for r in info.get('rows', [])}
    for k in sorted(kinds):
        classes.append('ret:' + k)
    if tname in NON_CLASS:
        classes.append('non-class-type')
    rows = info.get('rows', [])
    if any(isinstance(r[2], dict) for r in rows):
        classes.append('dict-result')
    if any(isinstance(r[2], list) for r in rows):
        classes.append('list-result')
    if sum(1 for r in rows if isinstance(r[2], dict)) >= 2:
        classes.append('two-dict-results')
    if c.get('par'):
        classes.append('parallel-bus')
    nontrivial = len(kinds) >= 2 or tname in NON_CLASS
    return {'viol': out, 'nontrivial': nontrivial, 'classes': classes, 'log': [repr(info.get('rows'))]}
