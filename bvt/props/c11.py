"""C11 Handler errors are isolated."""
from bvt import oracles
from bvt.gen import Profile, scenario
from bvt.props._scen import common_classes, judge

ID = 'C11'
LEVEL = 'exploration'
RULE = (
    'Generated scenarios with raising ops in sync and async handlers (function/method/classmethod/staticmethod), '
    'before and after suspension points, anywhere in the handler list and the tree (parent, awaited child, '
    'fire-and-forget child, forwarded bus); exception classes builtin, custom with payload, TimeoutError raised by the '
    'handler itself (plain, and from its own inner asyncio.wait_for), CancelledError coming out of a handler that awaited a '
    'cancelled future, chained exceptions (raise X from err); handlers returning an exception object; actors await events and call the result accessors with '
    'both raise_if_any settings. Oracle: the raising handler result is an error holding the very object raised; every '
    'other expected delivery happened once; all accepted events complete; await does not raise; accessors re-raise '
    'the first recorded error object iff raise_if_any. Non-trivial = >= 1 raising handler next to >= 1 other handler '
    'of the same event; distinct by canonical JSON.'
)
ASSUMPTIONS = ['virtual time', 'one scenario in five has event timeouts; handlers cut off by them are not judged here (C10), handlers that raised on their own are', 'stop() only in a dedicated sub-family (one case in six), where events accepted by a stopped bus, their ancestors and descendants are not judged', 'declared result types, where generated, admit every ordinary harness return value (int | str | None)']

from hypothesis import strategies as _st


@_st.composite
def _timeouts(draw):
    # one scenario in five: a parent handler times out AFTER a child handler has already raised - the recorded error must survive
    if draw(_st.integers(0, 4)) != 0:
        return {}
    return {str(t): draw(_st.sampled_from([0.13, 0.27, 0.41, 0.77])) for t in range(4) if draw(_st.booleans())}


P = Profile(timeouts=_timeouts(), raises=0.45, raise_kinds=['VE', 'custom', 'KE', 'RT', 'TO', 'TO', 'ITO', 'ITO', 'CE', 'chain', 'chain', 'falsy'], rets=['idx', 'idx', 'none', 'str', 'excobj', 'excobj_to'], sync=0.35, fwd=0.3, par=0.15, maxdepth=[1, 2, 3], wild=0.2, actor_ops=['disp', 'disp', 'dispany', 'sleep', 'await', 'acc', 'acc', 'yield'], max_actor_ops=6)


def budget(tier):
    return {'examples': 6000 if tier == 'quick' else 120000, 'wall_s': 300 if tier == 'quick' else 3000, 'shrink_s': 60}


@_st.composite
def _typed(draw):
    # a third of the scenarios: some event types declare a result type that every ordinary return value conforms to
    # (int | str | None); an exception object a handler returns must still end as that handler's error, the same object
    sc = draw(scenario(P))
    if draw(_st.integers(0, 2)) == 0:
        rt = {str(t): 'ius' for t in range(4) if draw(_st.booleans())}
        if rt:
            sc = dict(sc, rtypes=rt)
    return sc


def strategy(tier):
    from bvt.props._scen import with_stop

    # one case in six: an actor stops one of the buses; a handler (e.g. a forward) that then fails because the target is stopped is one
    # more failing handler - its event must still complete and keep the error it recorded
    return _st.integers(0, 5).flatmap(lambda k: with_stop(scenario(P_STOP), 1) if k == 0 else _typed())


P_STOP = Profile(raises=0.3, raise_kinds=['VE', 'custom', 'chain'], rets=['idx', 'none', 'str', 'excobj'], sync=0.3, min_buses=2, max_buses=3, fwd=0.8, typed_fwd=False, par=0.1, maxdepth=[1, 2], wild=0.2,
                 actor_ops=['disp', 'disp', 'dispany', 'sleep', 'sleep', 'await', 'yield'], max_actor_ops=6, modes=['ff', 'ff', 'later', 'await'])


def _raisers(F):
    return [(r['bus'], r['ev'], r['h']) for r in F.tr if r['k'] == 'exit' and r['how'] in ('raise', 'raise-cancelled')]


def nontrivial(F):
    for (b, e, h) in _raisers(F):
        if len(F.expected(b, e)) >= 2:
            return True
    return False


def classes(F):
    cl = common_classes(F)
    if any(r['k'] == 'a-acc' for r in F.tr):
        cl.append('accessor-call')
        if any(r['k'] == 'a-acc' and r['out'] == 'raise' for r in F.tr):
            cl.append('accessor-raised')
    if any(r['k'] == 'enq-rej' and r.get('exc') == 'QueueShutDown' for r in F.tr):
        cl.append('dispatch-or-forward-refused-by-a-stopped-bus')
    rs = _raisers(F)
    if rs:
        cl.append('raiser')
        kinds = {F.sc['handlers'][h]['kind'] for (_b, _e, h) in rs}
        cl += ['raiser-kind:' + ('sync' if k in ('sync', 'method', 'cmethod', 'smethod') else 'async') for k in kinds]
        for (b, e, h) in rs:
            p = F.parent.get(e)
            if p is not None and p[0] != 'A':
                cl.append('raiser-in-child')
                break
    if any(h.get('ret') in ('excobj', 'excobj_to') for h in F.sc['handlers']):
        cl.append('returns-exception-object')
        rt = F.sc.get('rtypes') or {}
        if any(str(F.etype.get(e)) in rt and F.sc['handlers'][h].get('ret') in ('excobj', 'excobj_to') for (_b, e, h) in F.enters):
            cl.append('exception-object-returned-on-typed-event')
    if any(op[0] == 'raise' and op[1] == 'TO' for h in F.sc['handlers'] for op in h['prog']):
        cl.append('raises-own-TimeoutError')
    if any(op[0] == 'raise' and op[1] == 'ITO' for h in F.sc['handlers'] for op in h['prog']):
        cl.append('inner-wait_for-timeout')
    if any(r['k'] == 'exit' and r['how'] == 'raise-cancelled' for r in F.tr):
        cl.append('handler-own-CancelledError')
    return cl


def run_case(sc):
    return judge(sc, [oracles.c11], nontrivial, classes)
