"""C05 Awaited child jumps the queue (documented semantics)."""
from bvt import oracles
from bvt.gen import Profile, scenario
from bvt.props._scen import common_classes, judge

ID = 'C05'
LEVEL = 'exploration'
RULE = (
    'Mostly serial buses; on a parallel_handlers bus (12%) the sibling handlers of the awaiting handler\'s own event and their descendants are concurrent by design and exempt. A dedicated actor '
    'pre-loads every bus queue with 0-4 unrelated events, further actors keep dispatching; handlers dispatch children '
    'to any bus and await them now or later. Oracle: between await-begin and the first trace record at which the child '
    'is complete, every handler entry is for the child or a harness-known descendant (clause a: the intruder was '
    'enqueued before the child, clause b: after). Non-trivial = at await-begin at least one unrelated event was queued '
    'on some bus; distinct by canonical JSON.'
)
ASSUMPTIONS = ['virtual time; completion instant observed by the harness at every trace record', 'on parallel buses only events unrelated to the awaiting handler\'s own event are judged', 'asynchronous clean-up of a cancelled handler is handler activity of its event: clean-up records of an unrelated event inside an await window count as a violation']

from hypothesis import strategies as _st


@_st.composite
def _timeouts(draw):
    # a quarter of the scenarios: unrelated handlers get cut off by event timeouts and need time to unwind meanwhile
    if draw(_st.integers(0, 3)) != 0:
        return {}
    return {str(t): draw(_st.sampled_from([0.13, 0.27, 0.41])) for t in range(4) if draw(_st.booleans())}


P = Profile(shadow=0.1, timeouts=_timeouts(), cleanup=0.3, par=0.12, preload=4, watch=True, actor_ops=['disp', 'burst', 'dispany', 'sleep', 'await', 'yield'], maxdepth=[2, 3], wild=0.1, fwd=0.25, modes=['await', 'await', 'await', 'later', 'ff'], raises=0.1, warm=[True, False, False])


def budget(tier):
    return {'examples': 6000 if tier == 'quick' else 120000, 'wall_s': 300 if tier == 'quick' else 3000, 'shrink_s': 60}


def strategy(tier):
    return scenario(P)


def _unrelated_queued(F):
    n = 0
    for me, ivs in F.awaits.items():
        for b, e, tag in ivs:
            if F.tr[b].get('already'):
                continue
            queued = set()
            for r in F.tr[:b]:
                if r['k'] == 'enq-ok':
                    queued.add((r['bus'], r['ev']))
                elif r['k'] == 'enter':
                    queued.discard((r['bus'], r['ev']))
            if any(not F.is_desc(ev, tag) for (_bb, ev) in queued):
                n += 1
    return n


def nontrivial(F):
    return _unrelated_queued(F) > 0


def classes(F):
    cl = common_classes(F)
    if _unrelated_queued(F):
        cl.append('await-with-unrelated-queued')
    return cl


def run_case(sc):
    return judge(sc, [oracles.c05], nontrivial, classes)
