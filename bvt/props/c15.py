"""C15 wait_until_idle is sound and live."""
from hypothesis import strategies as st

from bvt.histworld import run_history

ID = 'C15'
LEVEL = 'exploration'
RULE = (
    'Three quarters generated call histories on one bus, one quarter multi-bus engine scenarios (cross-bus in-handler awaits, forwarding, histories of 2-3 events) with wait_until_idle() calls from concurrent actors. Call histories: dispatches and bursts (payload-driven handler durations around the 0.1 s poll period, '
    'nested fire-and-forget/awaited children), time advances around the poll period, wait_until_idle() calls started '
    'as tasks while the history continues, and fault histories: raising handlers, firing event timeouts, rejected '
    'bursts (queue/backlog limits) incl. events nobody handles and re-dispatch of rejected event objects, small-N '
    'evictions, recursion-guard trips (self-recursion to depth 4). Oracle: when '
    'a timeout-less call returns, every event accepted by the bus before that instant has left its handler and none is '
    'queued (harness bookkeeping, and the public queue size is 0); every call returns within 5 virtual seconds after the harness sees quiescence. '
    'Non-trivial = a call was made while the bus was busy; distinct by canonical JSON.'
)
ASSUMPTIONS = ['virtual time; liveness as bounded safety', 'one bus; handlers do not outlive their invocation']

dur = st.sampled_from([0, 0.01, 0.05, 0.09, 0.1, 0.11, 0.2, 0.3])
op = st.one_of(
    st.tuples(st.just('adv'), dur).map(list),
    st.tuples(st.just('burst'), st.integers(1, 3), dur, st.integers(0, 3), st.booleans(), st.booleans(), st.sampled_from([None, None, None, 0.07, 0.13, 0.15])).map(list),
    st.tuples(st.just('burst'), st.integers(1, 3), dur, st.integers(0, 3), st.booleans(), st.booleans(), st.sampled_from([None, None, None, 0.07, 0.13, 0.15])).map(list),
    st.tuples(st.just('idle'), st.sampled_from([None, None, None, 0.05, 0.5])).map(list),
    st.tuples(st.just('idle'), st.none()).map(list),
    st.tuples(st.just('burst'), st.sampled_from([30, 51, 101]), dur, st.sampled_from([0, 60]), st.booleans(), st.just(False), st.none()).map(list),
    # a handler that awaits its children and is cut off by its event timeout while they are processed inline
    st.sampled_from([(0.05, 0.07), (0.11, 0.15), (0.09, 0.13)]).flatmap(lambda dt: st.tuples(st.just('burst'), st.integers(1, 2), st.just(dt[0]), st.integers(1, 2), st.just(True), st.booleans(), st.just(dt[1])).map(list)),
    st.tuples(st.just('burstnh'), st.sampled_from([1, 3, 51, 101])).map(list),
    st.tuples(st.just('retry'), st.sampled_from([1, 3, 60])).map(list),
    st.tuples(st.just('again'), st.sampled_from([1, 2]), st.booleans()).map(list),
)
scs = st.fixed_dictionaries({'N': st.sampled_from([None, 50, 50, 2, 3]), 'maxdepth': st.sampled_from([2, 2, 2, 4]), 'ops': st.lists(op, min_size=2, max_size=8), 'cap': st.just(400)})


# second generator: multi-bus scenarios on the scenario engine (cross-bus in-handler awaits, forwarding, small histories) with
# wait_until_idle() calls from concurrent actors; no timeouts here (the call-history world above covers those)
from bvt.gen import Profile, scenario  # noqa: E402

P_ENGINE = Profile(min_buses=2, max_buses=3, par=0.15, fwd=0.3, hist=[None, 1, 1, 2, 3], maxdepth=[2], wild=0.1, raises=0.15, raise_kinds=['VE', 'custom', 'chain', 'CE', 'CE'], cap=40, max_actors=3, max_actor_ops=6, actor_ops=['disp', 'disp', 'burst', 'sleep', 'sleep', 'idle', 'idle', 'idle', 'yield', 'expect'], modes=['await', 'await', 'await', 'later', 'ff'], burst=[2, 3], durs=[0.05, 0.1, 0.1, 0.25, 0.3], sync=0.3, min_handlers=2)


def _run_engine_case(sc):
    from bvt.engine import fmt_trace, run_scenario
    from bvt.facts import Facts

    out = run_scenario(sc)
    F = Facts(sc, out)
    viol, cl = [], ['engine-scenario']
    busy_call = False
    begun = {}
    for r in out['trace']:
        if r['k'] == 'a-idle-begin':
            begun[(r['actor'], r['bus'])] = r['i']
            if r.get('busy'):
                busy_call = True
        if r['k'] == 'a-idle-end' and r.get('timeout') is None and not r.get('exc') and r.get('pending'):
            b0 = begun.get((r['actor'], r['bus']), r['i'])
            # "returns only when the bus has nothing queued, pending or started" - at the instant of the return, whenever accepted
            early = [ev for ev in r['pending'] if any(i < b0 for i in F.enq.get((r['bus'], ev), []))]
            viol.append(('C15.a', f'wait_until_idle() on {r["bus"]} (called at idx {b0}) returned at idx {r["i"]} (t={r["t"]:g}) while events {r["pending"][:8]} accepted by that bus (before the call: {early[:8]}) had not finished their handlers there'))
    hang = out.get('hang')
    if hang:
        blocked = [a for a in (hang.get('actors') or {}).values() if a.get('blocked') and a['blocked'][0] == 'idle']
        if blocked and not hang.get('handlers'):
            viol.append(('C15.b', f'wait_until_idle() did not return although nothing was running: {hang}'))
        cl.append('hang:' + str(hang.get('kind')))
    if busy_call:
        cl.append('idle-call-on-busy-bus')
    if any(b.get('hist') in (2, 3) for b in sc['buses']):
        cl.append('small-history')
    if any(r['k'] == 'aw-begin' and F.bidx.get(r['by'][0]) is not None and any(bb != r['by'][0] for (bb, e) in F.enq if e == r['ev']) for r in out['trace']):
        cl.append('cross-bus-inline-await')
    return {'viol': viol[:1], 'nontrivial': busy_call, 'classes': cl, 'hang': bool(hang), 'log': fmt_trace(out)}


def enumerate_cases(tier, seed):
    """A small enumerated family built to reach one deep shape: a handler on A awaits a child on an idle bus B (processed
    inline on B), the child's handler awaits a grandchild on B (with a tiny history the started child is evicted), and another
    actor calls B.wait_until_idle() at every offset while that is going on."""
    for hist in (1, 2, None):
        for warm in (True, False):
            for off in (0.0, 0.05, 0.12, 0.2, 0.25, 0.3, 0.45):
                for inner in ('await', 'ff'):
                    yield {
                        'buses': [{'par': False, 'hist': None, 'rank': 1}, {'par': False, 'hist': hist, 'rank': 2}], 'fwd': [],
                        'handlers': [
                            {'bus': 0, 'pat': 0, 'kind': 'async', 'prog': [['disp', 1, 1, 'await']], 'ret': 'idx'},
                            {'bus': 1, 'pat': 1, 'kind': 'async', 'prog': [['sleep', 0.1], ['disp', 1, 2, inner], ['sleep', 0.3]], 'ret': 'idx'},
                            {'bus': 1, 'pat': 2, 'kind': 'async', 'prog': [['sleep', 0.05]], 'ret': 'idx'},
                        ],
                        'actors': [[['disp', 0, 0]], [['sleep', off], ['idle', 1, None]]], 'maxdepth': 2, 'cap': 40, 'warm': warm,
                    }


_enum_cross_bus = enumerate_cases


def enumerate_cases(tier, seed):
    yield from _enum_cross_bus(tier, seed)
    # a temporary handler (expect() with a timeout) that is applicable to an event when its processing starts and unregistered while an
    # earlier handler of that event is still suspended: the bus must still finish the event and report idle
    for to in (0.0625, 0.1875):
        for d in (0.25, 0.5):
            for par in (False, True):
                for warm in (True, False):
                    yield {
                        'buses': [{'par': par, 'hist': None, 'rank': 1}], 'fwd': [],
                        'handlers': [{'bus': 0, 'pat': 0, 'kind': 'async', 'prog': [['sleep', d]], 'ret': 'idx'}],
                        'actors': [[['expect', 0, 0, to]], [['yield', 2], ['disp', 0, 0]], [['sleep', 1.0], ['idle', 0, None]]],
                        'maxdepth': 1, 'cap': 10, 'warm': warm,
                    }


def budget(tier):
    return {'examples': 3000 if tier == 'quick' else 60000, 'wall_s': 400 if tier == 'quick' else 3000, 'shrink_s': 60}


def strategy(tier):
    from bvt.props._scen import with_wal

    return st.integers(0, 2).flatmap(lambda k: with_wal(scenario(P_ENGINE), 4) if k == 0 else scs)


def run_case(sc):
    if 'buses' in sc:
        return _run_engine_case(sc)
    out = run_history(sc)
    viol = [v for v in out['viol'] if v[0] in ('C15.a', 'C15.b')]
    if out.get('hang'):
        viol.append(('C15.b', f'event loop made no progress: {out["hang"]}'))
    cl = []
    calls = out['idle_calls']
    if any(c.get('busy_at_call') for c in calls):
        cl.append('idle-call-on-busy-bus')
    if any(c.get('timeout') is not None for c in calls):
        cl.append('idle-call-with-timeout')
    info = out['info']
    for k in ('rejected', 'evictions'):
        if info[k]:
            cl.append('fault:' + k)
    if any(o[0] == 'burst' and o[5] for o in sc['ops']):
        cl.append('fault:raising-handler')
    if any(o[0] == 'burst' and o[6] is not None for o in sc['ops']):
        cl.append('fault:event-timeout')
    if sc['maxdepth'] > 2:
        cl.append('fault:recursion-guard-depth')
    if out.get('stalled'):
        cl.append('stalled')
    return {'viol': viol, 'nontrivial': any(c.get('busy_at_call') for c in calls), 'classes': cl, 'hang': bool(out.get('hang')), 'log': out['log'][:100] + [repr(calls)]}
