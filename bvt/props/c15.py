"""C15 wait_until_idle is sound and live."""
from hypothesis import strategies as st

from bvt.histworld import run_history

ID = 'C15'
LEVEL = 'exploration'
RULE = (
    'Generated call histories: dispatches and bursts (payload-driven handler durations around the 0.1 s poll period, '
    'nested fire-and-forget/awaited children), time advances around the poll period, wait_until_idle() calls started '
    'as tasks while the history continues, and fault histories: raising handlers, firing event timeouts, rejected '
    'bursts (queue/backlog limits) incl. events nobody handles and re-dispatch of rejected event objects, small-N '
    'evictions, recursion-guard trips (self-recursion to depth 4). Oracle: when '
    'a timeout-less call returns, every event accepted by the bus before that instant has left its handler and none is '
    'queued (harness bookkeeping, and the public queue size is 0); every call returns within 5 virtual seconds after the harness sees quiescence. '
    'Non-trivial = a call was made while the bus was busy; distinct by canonical JSON.'
)
ASSUMPTIONS = ['virtual time; liveness as bounded safety', 'one bus; handlers do not outlive their invocation']

dur = st.sampled_from([0, 0.01, 0.05, 0.09, 0.1, 0.11, 0.2, 0.3])
op = st.one_of(
    st.tuples(st.just('adv'), dur).map(list),
    st.tuples(st.just('burst'), st.integers(1, 3), dur, st.integers(0, 3), st.booleans(), st.booleans(), st.sampled_from([None, None, None, 0.07, 0.13, 0.15])).map(list),
    st.tuples(st.just('burst'), st.integers(1, 3), dur, st.integers(0, 3), st.booleans(), st.booleans(), st.sampled_from([None, None, None, 0.07, 0.13, 0.15])).map(list),
    st.tuples(st.just('idle'), st.sampled_from([None, None, None, 0.05, 0.5])).map(list),
    st.tuples(st.just('idle'), st.none()).map(list),
    st.tuples(st.just('burst'), st.sampled_from([30, 51, 101]), dur, st.sampled_from([0, 60]), st.booleans(), st.just(False), st.none()).map(list),
    # a handler that awaits its children and is cut off by its event timeout while they are processed inline
    st.sampled_from([(0.05, 0.07), (0.11, 0.15), (0.09, 0.13)]).flatmap(lambda dt: st.tuples(st.just('burst'), st.integers(1, 2), st.just(dt[0]), st.integers(1, 2), st.just(True), st.booleans(), st.just(dt[1])).map(list)),
    st.tuples(st.just('burstnh'), st.sampled_from([1, 3, 51, 101])).map(list),
    st.tuples(st.just('retry'), st.sampled_from([1, 3, 60])).map(list),
    st.tuples(st.just('again'), st.sampled_from([1, 2])).map(list),
)
scs = st.fixed_dictionaries({'N': st.sampled_from([None, 50, 50, 2, 3]), 'maxdepth': st.sampled_from([2, 2, 2, 4]), 'ops': st.lists(op, min_size=2, max_size=8), 'cap': st.just(400)})


def budget(tier):
    return {'examples': 3000 if tier == 'quick' else 60000, 'wall_s': 400 if tier == 'quick' else 3000, 'shrink_s': 60}


def strategy(tier):
    return scs


def run_case(sc):
    out = run_history(sc)
    viol = [v for v in out['viol'] if v[0] in ('C15.a', 'C15.b')]
    if out.get('hang'):
        viol.append(('C15.b', f'event loop made no progress: {out["hang"]}'))
    cl = []
    calls = out['idle_calls']
    if any(c.get('busy_at_call') for c in calls):
        cl.append('idle-call-on-busy-bus')
    if any(c.get('timeout') is not None for c in calls):
        cl.append('idle-call-with-timeout')
    info = out['info']
    for k in ('rejected', 'evictions'):
        if info[k]:
            cl.append('fault:' + k)
    if any(o[0] == 'burst' and o[5] for o in sc['ops']):
        cl.append('fault:raising-handler')
    if any(o[0] == 'burst' and o[6] is not None for o in sc['ops']):
        cl.append('fault:event-timeout')
    if sc['maxdepth'] > 2:
        cl.append('fault:recursion-guard-depth')
    if out.get('stalled'):
        cl.append('stalled')
    return {'viol': viol, 'nontrivial': any(c.get('busy_at_call') for c in calls), 'classes': cl, 'hang': bool(out.get('hang')), 'log': out['log'][:100] + [repr(calls)]}
