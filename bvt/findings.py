"""Classifiers for open known findings (known_findings.txt). Each answers "is this violation that root cause?"
from harness-level facts only, as narrowly as the root cause allows."""
from __future__ import annotations


def f14_overlap(F, idx, ev_a, ev_b) -> bool:
    """F14: at trace index idx, ev_a and ev_b are (descendants of) children awaited by two different sibling handlers
    of one event on a parallel_handlers bus - each sibling runs its own inline processing loop."""
    aw = F.open_awaits_at(idx)
    ra = {(me[0], me[1]): me for me, t in aw.items() if F.par.get(me[0]) and F.is_desc(ev_a, t)}
    rb = {(me[0], me[1]): me for me, t in aw.items() if F.par.get(me[0]) and F.is_desc(ev_b, t)}
    for key, m1 in ra.items():
        m2 = rb.get(key)
        if m2 is not None and m2 != m1:
            return True
    return False


def f14_await_incomplete(F, idx, by, ev) -> bool:
    """F14 (await side): the await that returned incomplete is nested under one of >= 2 sibling handlers of one event
    on a parallel bus that were suspended in awaits at the same time (they starve each other until the spin limit)."""
    aw = dict(F.open_awaits_at(idx))
    aw[tuple(by)] = ev
    groups = {}
    for me, t in aw.items():
        if F.par.get(me[0]):
            groups.setdefault((me[0], me[1]), set()).add(me)
    for (bus, pev), members in groups.items():
        if len(members) >= 2:
            # the failing await must be one of the siblings or nested below one of them
            for m in members:
                if m == tuple(by) or F.is_desc(by[1], aw[m]):
                    return True
    return False


SIG_F14 = 'parallel_sibling_inline_overlap'

