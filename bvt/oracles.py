"""Oracles over scenario traces for C01..C11. Each returns a list of (clause id, detail)."""
from __future__ import annotations

import collections

from bvt.facts import Facts

TERMINAL = ('completed', 'error')


def _h(hi):
    return f'h{hi}'


def hang_text(F: Facts):
    h = F.hang
    if not h:
        return ''
    return f'{h.get("kind")} actors={h.get("actors")} handlers={h.get("handlers")} {h.get("detail", "")}'


# ---------------------------------------------------------------------------


def c01(F: Facts):
    v = []
    # expected deliveries
    touched = c10_facts(F)['touched'] if F.sc.get('timeouts') else set()
    for (bus, ev), idxs in F.enq.items():
        exp = F.expected(bus, ev)
        for hi in sorted(exp):
            n = len(F.enters.get((bus, ev, hi), []))
            if n == 0 and ev in touched:
                continue  # its processing was cut short because the handler awaiting it was cancelled by a timeout (C10's subject)
            if n == 0:
                v.append(('C01.a', f'event {ev} accepted on {bus} (enq at {idxs}) never delivered to handler h{hi}' + (f' [run stalled: {hang_text(F)}]' if F.hang else '')))
            elif n > 1:
                v.append(('C01.b', f'event {ev} on {bus}: handler h{hi} ran {n} times (trace idx {F.enters[(bus, ev, hi)]})'))
    for (bus, ev, hi), ents in F.enters.items():
        if (bus, ev) not in F.enq:
            v.append(('C01.c', f'handler h{hi} ran for event {ev} on {bus} which never accepted it'))
        elif hi not in F.expected(bus, ev):
            v.append(('C01.c', f'handler h{hi} on {bus} ran for non-matching event {ev}'))
    # results: exactly one terminal result per expected delivery
    if not F.hang:
        for (bus, ev), _ in F.enq.items():
            fin = F.final.get(ev)
            if fin is None:
                continue
            for hi in sorted(F.expected(bus, ev)):
                rows = [r for r in fin['results'] if r['h'] == _h(hi) and r['bus'] == bus]
                if len(rows) != 1:
                    v.append(('C01.d', f'event {ev}: {len(rows)} results for handler h{hi} on {bus}, expected exactly 1'))
                elif rows[0]['st'] not in TERMINAL:
                    v.append(('C01.d', f'event {ev}: result of h{hi} on {bus} is {rows[0]["st"]} at quiescence'))
    calls = collections.Counter()
    for r in F.tr:
        if r['k'] == 'enq-call':
            calls[(r['bus'], r['ev'])] += 1
        elif r['k'] in ('enq-ok', 'enq-rej'):
            calls[(r['bus'], r['ev'])] -= 1
    for key, n in calls.items():
        if n != 0:
            v.append(('C01.e', f'dispatch of event {key[1]} on {key[0]} neither returned nor raised'))
    return v


def c02(F: Facts):
    v = []
    stopped = {r['bus'] for r in F.tr if r['k'] == 'a-stop-begin'}
    for bus in {b for (b, _e) in F.enq}:
        if bus in stopped:
            continue  # what a bus that stop() tears down (and a later dispatch restarts) does with its queue is not judged; the others are
        evs = [(idxs[0], ev) for (b, ev), idxs in F.enq.items() if b == bus]
        evs.sort()
        started = [(i, ev) for i, ev in evs if (bus, ev) in F.first_enter]
        for a in range(len(started)):
            for c in range(a + 1, len(started)):
                e1, e2 = started[a][1], started[c][1]
                s1, s2 = F.first_enter[(bus, e1)], F.first_enter[(bus, e2)]
                if s2 < s1:
                    aw = F.open_awaits_at(s2)
                    if not any(F.is_desc(e2, x) for x in aw.values()):
                        v.append(('C02.a', f'{bus}: event {e2} (enqueued at {started[c][0]}) started at {s2} before event {e1} (enqueued at {started[a][0]}, started at {s1}) and no handler was awaiting it or an ancestor of it (open awaits: {dict((str(k), t) for k, t in aw.items())})'))
        if not F.par[bus]:
            for (b, ev), s in F.first_enter.items():
                if b != bus:
                    continue
                for me in F.running_at(s):
                    if me[0] == bus and me[1] != ev and F.awaiting_at(me, s) is None:
                        v.append(('C02.b', f'{bus} (serial): event {ev} started at {s} while handler h{me[2]} of event {me[1]} was running and not suspended in an await', {'idx': s, 'starting': ev, 'running': list(me)}))
    return v


def c03(F: Facts):
    v = []
    for r in F.tr:
        if r['k'] == 'a-await-end':
            if not r['same']:
                v.append(('C03.a', f'await on event {r["ev"]} returned a different object'))
            if r['exc']:
                v.append(('C03.b', f'await on event {r["ev"]} raised {r["exc"]}'))
            bad = [s for s in r['statuses'] if s not in TERMINAL]
            if bad or not r['complete']:
                v.append(('C03.c', f'await on event {r["ev"]} returned at idx {r["i"]} while the event was not complete (result statuses {r["statuses"]}, complete={r["complete"]})'))
            if r['inc']:
                v.append(('C03.d', f'await on event {r["ev"]} returned at idx {r["i"]} while descendants {r["inc"]} were not complete'))
    stops = bool(F.sc.get('stops'))
    if F.hang:
        for ai, s in (F.hang.get('actors') or {}).items():
            b = s.get('blocked')
            if b and b[0] == 'await':
                if stops and not _tree_done(F, b[1]):
                    continue  # stop() left part of the tree unprocessed: the statement promises nothing
                v.append(('C03.e', f'actor {ai} still blocked awaiting event {b[1]} at the horizon{" although every handler result in its tree is terminal" if stops else ""}: {hang_text(F)}; final={_brief(F, b[1])}'))
        if F.hang.get('kind') in ('spinning', 'deadlock', 'budget') and not stops and not any(x[0] == 'C03.e' for x in v):
            v.append(('C03.e', f'event loop made no progress: {hang_text(F)}'))
    return v


def _tree_done(F, ev, _seen=None):
    """every expected handler of every acceptance of ev has a terminal result, and so has every accepted descendant"""
    seen = _seen if _seen is not None else set()
    if ev in seen:
        return True
    seen.add(ev)
    s = F.final.get(ev)
    if not s:
        return False
    accs = [(b, e) for (b, e) in F.enq if e == ev]
    if not accs:
        return False
    for bus, _e in accs:
        exp = F.expected(bus, ev)
        # (a stop() call is in effect somewhere between its begin and end records)
        begins = [r['i'] for r in F.tr if r['k'] == 'a-stop-begin' and r['bus'] == bus]
        ends = [r['i'] for r in F.tr if r['k'] == 'a-stop-end' and r['bus'] == bus]
        if not exp and begins and (len(ends) < len(begins) or max(ends) > F.enq[(bus, ev)][-1]):
            return False  # nothing observable tells whether the stopped bus ever took the event off its queue
        for hi in exp:
            rows = [r for r in s['results'] if r['h'] == f'h{hi}' and r['bus'] == bus]
            if not rows or any(r['st'] not in TERMINAL for r in rows):
                return False
    if any(r['st'] not in TERMINAL for r in s['results']):
        return False
    return all(_tree_done(F, c, seen) for c in F.children.get(ev, []) if c in F.accepted)


def _brief(F, tag):
    s = F.final.get(tag)
    if not s:
        return None
    return {'status': s['status'], 'sig': s['sig'], 'results': [(r['h'], r['bus'], r['st'], r['kids']) for r in s['results']]}


def c04(F: Facts, cancelled_ok=True):
    v = []
    for r in F.tr:
        if r['k'] == 'aw-end':
            if not r['complete'] or r['inc'] or any(s not in TERMINAL for s in r['statuses']):
                v.append(('C04.a', f'handler {r["by"]} awaited event {r["ev"]}; await returned at idx {r["i"]} with complete={r["complete"]} statuses={r["statuses"]} incomplete descendants={r["inc"]}', {'idx': r['i'], 'by': list(r['by']), 'ev': r['ev']}))
            if not r['same']:
                v.append(('C04.a', f'handler {r["by"]}: await on event {r["ev"]} returned a different object'))
    if F.hang:
        stuck = [h for h in (F.hang.get('handlers') or []) if h[3] is not None]
        if stuck:
            v.append(('C04.b', f'handler(s) still blocked in await at the horizon: {stuck}; {hang_text(F)}'))
        elif F.hang.get('kind') in ('spinning', 'deadlock', 'budget'):
            v.append(('C04.b', f'event loop made no progress: {hang_text(F)}'))
    return v


def c05(F: Facts):
    """Handlers of an event that is in flight on a parallel_handlers bus when the await starts (and whatever they dispatch) are concurrent
    by design (and by the open finding F14): activity for such an event or its descendants is not judged."""
    v = []
    oc = F.out.get('observed_complete', {})
    for me, ivs in F.awaits.items():
        for b, e, tag in ivs:
            rb = F.tr[b]
            if rb.get('already'):
                continue
            end = e if e is not None else len(F.tr)
            done_at = oc.get(tag, oc.get(str(tag)))
            if e is not None and F.tr[e]['k'] == 'aw-end' and not F.tr[e].get('complete'):
                # the await came back although the child was not complete (C04's subject): the statement's window still runs
                # until the child's completion
                end = len(F.tr)
            if done_at is not None:
                end = min(end, done_at['at'])
            suspended = set(F.open_awaits_at(b + 1))  # handlers already suspended in an await: only their cancellation can show up
            # events whose handlers are in flight on a parallel bus when the await starts: their sibling handlers run concurrently
            par_events = {x[1] for x in F.running_at(b + 1) if F.par.get(x[0])}
            for r in F.tr[b + 1 : end]:
                active = r['k'] == 'enter' or (r['k'] in ('mark', 'cleanup-begin', 'cleanup-end') and 'h' in r)
                if active and any(F.is_desc(r['ev'], pe) for pe in par_events):
                    continue
                if active and not F.is_desc(r['ev'], tag) and (r['bus'], r['ev'], r['h']) not in suspended and (r['bus'], r['ev'], r['h']) != tuple(me):
                    other = r['ev']
                    cq = min((idxs[0] for (bb, ev), idxs in F.enq.items() if ev == tag), default=None)
                    oq = min((idxs[0] for (bb, ev), idxs in F.enq.items() if ev == other and bb == r['bus']), default=None)
                    clause = 'C05.a' if (oq is not None and cq is not None and oq < cq) else 'C05.b'
                    what = 'started' if r['k'] == 'enter' else f'was executing ({r["k"]})'
                    v.append((clause, f'handler {list(me)} awaited event {tag} from idx {b}; before it completed (idx {end}) handler h{r["h"]} {what} for unrelated event {other} on {r["bus"]} at idx {r["i"]} (unrelated enqueued at {oq}, awaited child at {cq})'))
                    break
    return v


def c06(F: Facts):
    v = []
    stop_begins = {}
    for r in F.tr:
        if r['k'] == 'a-stop-begin':
            stop_begins.setdefault(r['bus'], r['i'])
    for (bus, ev, hi), ents in F.enters.items():
        for s in ents:
            for me in F.running_at(s):
                if me == (bus, ev, hi):
                    continue
                if stop_begins.get(me[0], s) < s:
                    continue  # a handler of a bus that stop() is tearing down / has torn down: what it still does is not "processing"
                if F.awaiting_at(me, s) is not None:
                    continue  # (i) suspended in an await
                if F.par.get(me[0]):
                    # (iii) same event, same parallel bus
                    if me[0] == bus and me[1] == ev:
                        continue
                    # (ii) a sibling handler of the same event on that parallel bus is suspended in an await
                    sib = [m for m in F.running_at(s) if m[0] == me[0] and m[1] == me[1] and m != me and F.awaiting_at(m, s) is not None]
                    if sib:
                        continue
                v.append(('C06.a', f'handler h{hi} of event {ev} on {bus} started at idx {s} while handler h{me[2]} of event {me[1]} on {me[0]} was running and not suspended in an await', {'idx': s, 'starting': ev, 'running': list(me)}))
    return v


def c07(F: Facts):
    v = []
    touched = c10_facts(F)['touched'] if F.sc.get('timeouts') else set()
    for ev in sorted(F.accepted):
        typ = F.etype.get(ev)
        if typ is None:
            continue
        entry = F.direct_buses(ev)
        if not entry:
            continue
        if ev in touched:
            continue  # processing cut short because the handler awaiting it timed out: its pending forwards are cancelled by design (C10)
        reach = {F.bname[i] for i in F.reachable(entry, typ)}
        got_enq = [b for (b, e), idxs in F.enq.items() if e == ev]
        got_run = {b for (b, e) in F.first_enter if e == ev}
        extra = set(got_enq) - reach
        if extra:
            v.append(('C07.a', f'event {ev} (type E{typ}, entry {entry}) reached bus(es) {sorted(extra)} not reachable through forwarding ({sorted(reach)})'))
        if not F.hang:
            missing = reach - set(got_enq)
            if missing:
                v.append(('C07.a', f'event {ev} (type E{typ}, entry {entry}) never reached {sorted(missing)} (reachable: {sorted(reach)}; got {got_enq})'))
            for b in sorted(reach & set(got_enq)):
                if F.expected(b, ev) and b not in got_run:
                    v.append(('C07.a', f'event {ev} was enqueued on {b} but no handler of {b} processed it'))
        for (b, e, hi), ents in F.enters.items():
            if e == ev and len(ents) > 1:
                v.append(('C07.b', f'event {ev}: handler h{hi} on {b} ran {len(ents)} times'))
        fin = F.final.get(ev)
        if fin is not None and not F.hang:
            order = []
            for r in F.tr:
                if r['k'] == 'enq-ok' and r['ev'] == ev and r['bus'] not in order:
                    order.append(r['bus'])
            if fin['path'] != order:
                v.append(('C07.d', f'event {ev}: event_path {fin["path"]} != buses in order of arrival {order}'))
            for b in sorted(reach & set(got_enq)):
                for hi in sorted(F.expected(b, ev)):
                    if not any(r['h'] == _h(hi) and r['bus'] == b for r in fin['results']):
                        v.append(('C07.f', f'event {ev}: no result of handler h{hi} on {b} accumulated on the event'))
    for r in F.tr:
        if r['k'] == 'enq-ok' and r.get('same') is False:
            v.append(('C07.e', f'dispatch on {r["bus"]} returned a different object for event {r["ev"]}'))
        if r['k'] == 'enter' and r.get('same') is False:
            v.append(('C07.e', f'handler h{r["h"]} on {r["bus"]} received a different object for event {r["ev"]}'))
    if F.hang:
        v.append(('C07.c', f'forwarding scenario did not terminate: {hang_text(F)}'))
    return v


def c08(F: Facts):
    v = []
    for s in F.out.get('stability', []):
        before = {r['rid']: r for r in s['before']}
        after = {r['rid']: r for r in s['after']}
        if s['status_now'] != 'completed':
            clause = 'C08.a'
            what = f'status regressed {s["status_before"]} -> {s["status_now"]}'
        elif set(after) - set(before):
            clause = 'C08.b'
            what = 'a handler result was added'
        else:
            clause = 'C08.c'
            what = 'a handler result changed'
        added = [(r['h'], r['bus'], r['st']) for rid, r in after.items() if rid not in before]
        v.append((clause, f'event {s["ev"]} observed complete at idx {s["observed_at"]} ({s["how"]}); at idx {s["changed_at"]} {what}; added={added}'))
    # completion outlives the event loop it happened in
    for r in F.out.get('second_loop') or []:
        if r.get('await') != 'returned' or r.get('status') != 'completed' or not r.get('sig'):
            v.append(('C08.a', f'event {r.get("ev")} had been observed complete; looked at again in a later event loop: status={r.get("status")} completion signalled={r.get("sig")} await -> {r.get("await")}'))
    # awaiting a forwarded event waits for the handlers of every bus it is forwarded to
    for r in F.tr:
        if (r['k'] == 'a-await-end' and not r.get('exc')) or (r['k'] == 'aw-end' and not r.get('acc') and not F.sc.get('timeouts')):
            # (an await from ordinary code, or - in scenarios without timeouts - an await inside a handler)
            ev = r['ev']
            for (b, e), idxs in F.enq.items():
                if e != ev or idxs[0] > r['i']:
                    continue
                for hi in sorted(F.expected(b, ev)):
                    ex = [x for x in F.exits.get((b, ev, hi), []) if x < r['i']]
                    if not ex:
                        v.append(('C08.d', f'await on event {ev} returned at idx {r["i"]} but handler h{hi} on {b} (event enqueued there at {idxs[0]}) had not finished'))
    return v


def c09(F: Facts):
    v = []
    fin = F.final
    # who lists whom as a child
    listed = collections.defaultdict(list)  # child tag -> [(parent tag, h, bus)]
    for ptag, s in fin.items():
        for r in s['results']:
            for c in r['kids']:
                listed[c].append((int(ptag), r['h'], r['bus']))
    # (also refused attempts: the library fills in event_parent_id before it decides whether to accept)
    hre_events = {r['ev'] for r in F.tr if r['k'] == 'disp' and r.get('hre')}
    for r in F.tr:
        if r['k'] != 'disp' or not r.get('ok'):
            continue
        ev = r['ev']
        s = fin.get(ev)
        if s is None:
            continue
        if r['by'].__class__ is str:  # actor
            if ev in hre_events:
                continue  # a handler dispatched this object again later: it legitimately acquired a parent / is somebody's child
            if r.get('xp') is None and s['parent'] is not None:
                v.append(('C09.c', f'event {ev} dispatched from ordinary code at idx {r["i"]} has parent {s["parent"]} ({_who(F, s["parent"])})'))
            if listed.get(ev):
                v.append(('C09.c', f'event {ev} dispatched from ordinary code is listed as child of {listed[ev]}'))
        else:
            pbus, pev, hi = r['by']
            ps = fin.get(pev)
            if r.get('rep'):
                continue  # a replica of the event being handled, forwarded by its handler: judged by the forwarding clause (C09.e) below
            if r.get('hre'):
                # an existing object dispatched again from inside a handler: it is that handler's child (exactly once); it takes that
                # handler's event as parent only if it had none
                if not r['had_parent'] and ps is not None and s['parent'] != ps['id']:
                    v.append(('C09.a', f'event {ev} (an existing object without parent) dispatched again by handler h{hi} of event {pev} on {pbus} has parent {_who(F, s["parent"])} instead of event {pev}'))
                own = [x for x in listed.get(ev, []) if x == (pev, _h(hi), pbus)]
                if len(own) != 1 and not F.hang:
                    v.append(('C09.b', f'event {ev} (an existing object, bus already in its path: {r.get("in_path")}) dispatched again by handler h{hi} of event {pev} on {pbus} appears {len(own)} times among the children of that handler (expected exactly once); listed by {listed.get(ev)}'))
                continue
            if r.get('xp') is None:
                if ps is not None and s['parent'] != ps['id']:
                    v.append(('C09.a', f'event {ev} dispatched by handler h{hi} of event {pev} on {pbus} has parent {_who(F, s["parent"])} instead of event {pev}'))
            own = [x for x in listed.get(ev, []) if x == (pev, _h(hi), pbus)]
            other = [x for x in listed.get(ev, []) if x != (pev, _h(hi), pbus)]
            if len(own) != 1 and not F.hang:
                v.append(('C09.b', f'event {ev} appears {len(own)} times among the children of handler h{hi} of event {pev} on {pbus} (expected exactly once); listed by {listed.get(ev)}'))
            if other:
                v.append(('C09.b', f'event {ev} (dispatched by h{hi} of event {pev} on {pbus}) is listed as child of other results: {other}'))
        if r.get('xp') == 'fake' and s['parent'] != '01234567-89ab-cdef-0123-456789abcdef':
            v.append(('C09.d', f'explicit parent id of event {ev} was overwritten with {s["parent"]}'))
        if r.get('xp') == 'root0':
            roots = F.out.get('roots') or []
            # root0 at the time of dispatch: first accepted actor event before this record
            first = next((x['ev'] for x in F.tr if x['k'] == 'disp' and x['by'].__class__ is str and x.get('ok') and x['i'] < r['i']), None)
            if first is not None and fin.get(first) and s['parent'] != fin[first]['id'] and not (r['by'].__class__ is not str and s['parent'] is None):
                v.append(('C09.d', f'explicit parent id of event {ev} (event {first}) was overwritten with {_who(F, s["parent"])}'))
    # forwarding a replica (same event_id, other object) of the event being handled is still forwarding: neither own parent nor own child
    for rt, ot in (F.out.get('replica_of') or {}).items():
        so = fin.get(int(ot)) or fin.get(ot)
        if so is None:
            continue
        for res in so['results']:
            if int(rt) in res['kids']:
                v.append(('C09.e', f'event {ot}: a replica of it (object tag {rt}, same event_id) forwarded by its handler {res["h"]} on {res["bus"]} is listed among its own children'))
    for tag, s in fin.items():
        if s['parent'] is not None and s['parent'] == s['id']:
            v.append(('C09.e', f'event {tag} is its own parent (path {s["path"]})'))
        if any(int(tag) in r['kids'] for r in s['results']):
            v.append(('C09.e', f'event {tag} is listed among its own children'))
    for r in F.tr:
        if r['k'] == 'readbus':
            if r.get('got') != r['by'][0] or not r.get('same', False):
                v.append(('C09.f', f'inside handler {r["by"]} event.event_bus was {r.get("got")} ({r.get("exc")}), the bus running the handler is {r["by"][0]}'))
    return v


def _who(F, eid):
    if eid is None:
        return None
    for tag, s in F.final.items():
        if s['id'] == eid:
            return f'event {tag}'
    return eid


def all_complete(F: Facts, clause: str, skip=()):
    """every accepted event complete at quiescence"""
    v = []
    for ev in sorted(F.accepted):
        s = F.final.get(ev)
        if s is None or ev in skip:
            continue
        bad = [(r['h'], r['bus'], r['st']) for r in s['results'] if r['st'] not in TERMINAL]
        if s['status'] != 'completed' or not s['sig'] or bad:
            v.append((clause, f'event {ev} not complete at quiescence: status={s["status"]} signalled={s["sig"]} non-terminal results={bad}' + (f' [{hang_text(F)}]' if F.hang else '')))
    return v


# ---------------------------------------------------------------------------
# C10


EPS = 1e-9


def _timeout_of(F, ev):
    """event_timeout the harness gave the event (None = no timeout)"""
    typ = F.etype.get(ev)
    for r in F.tr:
        if r['k'] == 'disp' and r.get('ev') == ev:
            break
    to = (F.sc.get('timeouts') or {}).get(str(typ))
    return None if to == 'inf' else to


def c10_facts(F: Facts):
    if hasattr(F, '_c10'):
        return F._c10
    inv = {}  # me -> dict(enter idx/time, exit idx/time/how, deadline)
    for (bus, ev, hi), ents in F.enters.items():
        for n, e in enumerate(ents):
            exs = F.exits.get((bus, ev, hi), [])
            x = exs[n] if n < len(exs) else None
            to = _timeout_of(F, ev)
            te = F.tr[e]['t']
            inv[(bus, ev, hi, n)] = {'enter': e, 'te': te, 'exit': x, 'tx': F.tr[x]['t'] if x is not None else None, 'how': F.tr[x]['how'] if x is not None else None, 'D': (te + to) if to is not None else None, 'to': to}
    own, anc, ties, where = [], [], [], set()
    touched = set()
    for key, d in inv.items():
        if d['how'] != 'cancelled':
            continue
        me = key[:3]
        tx = d['tx']
        is_own = d['D'] is not None and abs(d['D'] - tx) <= EPS
        # deadlines of handlers that were awaiting (an ancestor of) this handler's event when it was cancelled
        expl = []
        for (obus, oev, ohi, on), od in inv.items():
            if (obus, oev, ohi) == me:
                continue
            for b, e, t in F.awaits.get((obus, oev, ohi), []):
                if b < d['exit'] and (e is None or e >= d['exit']) and F.is_desc(me[1], t) and od['D'] is not None and abs(od['D'] - tx) <= EPS:
                    expl.append((obus, oev, ohi))
        d['own'] = is_own
        d['explained_by'] = expl
        if is_own and expl:
            ties.append(key)
        if is_own:
            own.append(key)
            aw = [(b, e, t) for b, e, t in F.awaits.get(me, []) if b < d['exit'] and (e is None or e >= d['exit'])]
            if aw:
                t = aw[0][2]
                gk = [x for x in F.descendants(t) if any(k[1] == x and v['enter'] < d['exit'] and v['how'] == 'cancelled' and abs((v['tx'] or -1) - tx) <= EPS for k, v in inv.items())]
                where.add('while-grandchild-runs' if gk else 'while-awaiting-child')
                for x in [t] + F.descendants(t):
                    touched.add(x)
            else:
                disp_before = any(r['k'] == 'disp' and r['by'] == list(me) and r['i'] < d['exit'] for r in F.tr)
                where.add('after-dispatching' if disp_before else 'before-dispatching')
        elif expl:
            anc.append(key)
    F._c10 = {'inv': inv, 'own_deadline_cancels': own, 'ancestor_cancels': anc, 'ties': ties, 'where': where, 'touched': touched}
    return F._c10


def c10(F: Facts):
    v = []
    f = c10_facts(F)
    inv = f['inv']
    end_t = F.tr[-1]['t'] if F.tr else 0.0
    for key, d in inv.items():
        me = key[:3]
        D = d['D']
        if D is not None:
            # C10.a no activity of this handler strictly after its deadline
            last = d['exit'] if d['exit'] is not None else len(F.tr)
            for r in F.tr[d['enter'] : last]:
                by = r.get('by')
                mine = (r['k'] == 'mark' and (r['bus'], r['ev'], r['h']) == me) or (isinstance(by, list) and tuple(by) == me)
                if mine and r['t'] > D + EPS:
                    v.append(('C10.a', f'handler h{me[2]} of event {me[1]} on {me[0]} entered at t={d["te"]} with timeout {d["to"]} (deadline {D}) but was still executing at t={r["t"]} (record {r["k"]} idx {r["i"]})'))
                    break
            # C10.b it leaves at the deadline at the latest
            if d['exit'] is None:
                if end_t > D + EPS:
                    v.append(('C10.b', f'handler h{me[2]} of event {me[1]} on {me[0]} (deadline {D}) never exited (run ended at t={end_t})'))
            elif d['tx'] > D + EPS:
                v.append(('C10.b', f'handler h{me[2]} of event {me[1]} on {me[0]} overran its deadline {D}: exited ({d["how"]}) at t={d["tx"]}'))
        if d['how'] == 'cancelled' and not d.get('own') and not d.get('explained_by'):
            v.append(('C10.b', f'handler h{me[2]} of event {me[1]} on {me[0]} was cancelled at t={d["tx"]}, which is neither its own deadline ({D}) nor the deadline of a handler awaiting it'))
    fin = F.final
    if not F.hang:
        for key, d in inv.items():
            me = key[:3]
            if d['how'] != 'cancelled':
                continue
            s = fin.get(me[1])
            if s is None:
                continue
            rows = [r for r in s['results'] if r['h'] == f'h{me[2]}' and r['bus'] == me[0]]
            if len(rows) != 1:
                v.append(('C10.c', f'event {me[1]}: {len(rows)} results for cancelled handler h{me[2]} on {me[0]}'))
                continue
            r = rows[0]
            if r['st'] != 'error':
                if not (key in f['ties']):
                    v.append(('C10.c', f'handler h{me[2]} of event {me[1]} on {me[0]} was cancelled at t={d["tx"]} but its result is {r["st"]}'))
            elif d.get('own') and not d.get('explained_by') and r['err'] != 'TimeoutError':
                v.append(('C10.c', f'handler h{me[2]} of event {me[1]} on {me[0]} was cut off at its own deadline but its error is {r["err"]}, not TimeoutError'))
        # C10.d / C10.f exactly-once for everything not interrupted; interrupted events may have un-run handlers with error results
        touched = f['touched']
        for (bus, ev), idxs in F.enq.items():
            s = fin.get(ev)
            for hi in sorted(F.expected(bus, ev)):
                n = len(F.enters.get((bus, ev, hi), []))
                if n > 1:
                    v.append(('C10.d', f'event {ev} on {bus}: handler h{hi} ran {n} times'))
                elif n == 0:
                    rows = [r for r in (s['results'] if s else []) if r['h'] == f'h{hi}' and r['bus'] == bus]
                    if ev in touched and rows and rows[0]['st'] == 'error':
                        continue
                    if _timeout_of(F, ev) == 0 and rows and rows[0]['st'] == 'error' and rows[0]['err'] == 'TimeoutError' and F.sc['handlers'][hi]['kind'] not in ('sync', 'method', 'cmethod', 'smethod', 'busmeth'):
                        continue  # event_timeout=0: an async handler is over time before its first step - a TimeoutError result without the body ever running is the enforcement
                    clause = 'C10.d' if ev in touched or any(k[1] == ev and dd['how'] == 'cancelled' for k, dd in inv.items()) else 'C10.f'
                    v.append((clause, f'event {ev} accepted on {bus}: handler h{hi} never ran (interrupted-by-cancellation={ev in touched}, results={[(r["h"], r["st"]) for r in rows]})'))
        v.extend(all_complete(F, 'C10.e'))
    else:
        blocked = F.hang.get('actors') or {}
        if any(b.get('blocked') and b['blocked'][0] == 'idle' for b in blocked.values()):
            v.append(('C10.g', f'wait_until_idle() did not return: {hang_text(F)}'))
        else:
            v.append(('C10.e', f'run did not reach quiescence: {hang_text(F)}'))
    return v


# ---------------------------------------------------------------------------
# C11


def c11(F: Facts):
    v = []
    fin = F.final
    raised = {}  # me -> kind ('raise' | 'excobj')
    own_cancel = set()
    with_timeouts = bool(F.sc.get('timeouts'))
    touched = c10_facts(F)['touched'] if with_timeouts else set()
    for r in F.tr:
        if r['k'] == 'exit' and r['how'] == 'raise':
            raised[(r['bus'], r['ev'], r['h'])] = 'raise'
        if r['k'] == 'exit' and r['how'] == 'raise-cancelled':
            own_cancel.add((r['bus'], r['ev'], r['h']))
    # stop() sub-family: what stop() abandons (events accepted by a bus that is stopped at some point, and their ancestors, which wait
    # for them) is not judged; everything else - in particular an event whose forward to the stopped bus was REFUSED - is
    stops = bool(F.sc.get('stops'))
    stopped = {r['bus'] for r in F.tr if r['k'] == 'a-stop-begin'}
    abandoned = set()
    if stops:
        for (bus, ev) in F.enq:
            if bus in stopped:
                x, hops = ev, 0
                while x is not None and x not in abandoned and hops < 1000:
                    abandoned.add(x)
                    p = F.parent.get(x)
                    x = p[1] if (p is not None and p[0] != 'A') else None
                    hops += 1
                # ... and their descendants: a handler of the stopped bus may be cancelled while it processes a child inline
                abandoned.update(F.descendants(ev))
    if not F.hang or stops:
        for (bus, ev), idxs in F.enq.items():
            s = fin.get(ev)
            if s is None or bus in stopped:
                continue
            for hi in sorted(F.expected(bus, ev)):
                me = (bus, ev, hi)
                n = len(F.enters.get(me, []))
                rows = [r for r in s['results'] if r['h'] == f'h{hi}' and r['bus'] == bus]
                if stops and ev in abandoned:
                    continue  # (also handlers that raised: a stop() landing at the very instant may replace the error it just raised)
                if with_timeouts:
                    # handlers cut off by a timeout, and handlers of an event whose processing an awaiting ancestor's timeout
                    # interrupted, are C10's subject; everything that raised on its own is still judged below
                    if any(F.tr[x]['how'] == 'cancelled' for x in F.exits.get(me, [])):
                        continue
                    if n == 0 and ev in touched and rows and rows[0]['st'] == 'error':
                        continue
                if n != 1:
                    v.append(('C11.b', f'event {ev} on {bus}: handler h{hi} ran {n} times (raising handlers on this event: {[m for m in raised if m[1] == ev]})'))
                    continue
                if len(rows) != 1:
                    v.append(('C11.b', f'event {ev} on {bus}: {len(rows)} results for handler h{hi}'))
                    continue
                r = rows[0]
                spec = F.sc['handlers'][hi]
                if me in own_cancel:
                    if r['st'] != 'error' or r['err'] != 'CancelledError':
                        v.append(('C11.a', f'handler h{hi} of event {ev} on {bus} ended with a CancelledError of its own (it awaited a cancelled future); its result is {r["st"]} err={r["err"]}'))
                elif me in raised:
                    if r['st'] != 'error':
                        v.append(('C11.a', f'handler h{hi} of event {ev} on {bus} raised but its result is {r["st"]}'))
                    elif r['errkey'] != list(me):
                        v.append(('C11.a', f'handler h{hi} of event {ev} on {bus} raised, but the recorded error ({r["err"]}) is not the object it raised'))
                elif spec.get('ret') in ('excobj', 'excobj_to'):
                    if r['st'] != 'error' or r['errkey'] != list(me):
                        v.append(('C11.a', f'handler h{hi} of event {ev} on {bus} returned an exception object; result is {r["st"]} err={r["err"]} (same object: {r["errkey"] == list(me)})'))
                else:
                    if r['st'] != 'completed':
                        v.append(('C11.b', f'handler h{hi} of event {ev} on {bus} did not raise but its result is {r["st"]} ({r["err"]})'))
        v.extend(x for x in all_complete(F, 'C11.c', skip=abandoned))
    else:
        v.append(('C11.c', f'run did not reach quiescence: {hang_text(F)}'))
    for r in F.tr:
        if r['k'] == 'a-await-end' and r['exc']:
            v.append(('C11.d', f'await on event {r["ev"]} raised {r["exc"]}'))
        if r['k'] == 'a-acc':
            rows = r['rows']
            errs = [x for x in rows if x['err'] is not None]
            if with_timeouts and r['out'] == 'raise' and r['exc'] == 'TimeoutError' and r.get('errkey') is None:
                continue  # the accessor's own wait ran into the event timeout: not an error recorded by a handler
            if r['ria'] and errs:
                first = errs[0]
                if r['out'] != 'raise':
                    v.append(('C11.e', f'{r["name"]}(raise_if_any=True) on event {r["ev"]} returned {r.get("val")} although handler {first["h"]} on {first["bus"]} has error {first["err"]}'))
                elif first['errkey'] is not None and r.get('errkey') != first['errkey']:
                    v.append(('C11.e', f'{r["name"]}(raise_if_any=True) on event {r["ev"]} raised {r["exc"]} (object of {r.get("errkey")}) instead of the first recorded error object (handler {first["h"]} on {first["bus"]})'))
                elif first['errkey'] is None and r.get('exc') != first['err']:
                    v.append(('C11.e', f'{r["name"]}(raise_if_any=True) on event {r["ev"]} raised {r["exc"]}, first recorded error is {first["err"]}'))
            elif r['out'] == 'raise':
                truthy = [x for x in rows if x['st'] == 'completed' and x['res'] != 'None' and not (isinstance(x['res'], list) and x['res'] and x['res'][0] in ('event', 'exc'))]
                if not (r['exc'] == 'ValueError' and r['rin'] and not truthy and r.get('errkey') is None):
                    v.append(('C11.e', f'{r["name"]}(raise_if_any={r["ria"]}, raise_if_none={r["rin"]}) on event {r["ev"]} raised {r["exc"]} (errors recorded: {[(x["h"], x["err"]) for x in errs]})'))
    return v
